"""Loop-free integer slices of MIR -> SMT-LIB2 bit-vector terms (the "glue facts" of DESIGN.md 3.5).

`term(fn, local)` follows the (unique) definition chain of an integer local: copies / moves, constants,
checked and unchecked arithmetic, tuple projections of checked ops, integer casts. Results of calls
and field reads are free variables named after the callee and its (recursively translated)
arguments, i.e. calls are assumed pure - stated in the evidence. Anything else raises MirError.
`equal_for_all(t1, t2, ...)` asks z3 (and cvc5) whether two terms can differ.
"""
import re, subprocess
from mir import MirError

WIDTH = {"usize": 64, "u64": 64, "u32": 32, "u16": 16, "u8": 8, "isize": 64, "i64": 64, "i32": 32, "u128": 128, "bool": 1}


class Ctx:
    def __init__(self, fn):
        self.fn = fn
        self.defs = {}
        self.calls = {}
        for b in fn.blocks.values():
            if b.cleanup:
                continue
            for s in b.stmts:
                m = re.match(r"^(_\d+) = (.*)$", s)
                if m:
                    self.defs.setdefault(m.group(1), []).append(m.group(2))
            if b.kind == "call" and b.dest and re.fullmatch(r"_\d+", b.dest):
                self.calls.setdefault(b.dest, []).append(b)
        self.free = {}

    def width_of(self, local):
        ty = self.fn.locals.get(local, "").strip()
        if local == "_0":
            ty = self.fn.ret
        m = re.match(r"^\(?(usize|u64|u32|u16|u8|isize|i64|i32|u128|bool)\b", ty)
        if not m:
            # parameters: look in the header
            pm = re.search(r"\b%s: (usize|u64|u32|u16|u8|bool)\b" % re.escape(local), self.fn.params)
            if pm:
                return WIDTH[pm.group(1)]
            raise MirError("glue: no integer type for %s (%r)" % (local, ty))
        return WIDTH[m.group(1)]

    def freevar(self, name, width):
        name = re.sub(r"[^A-Za-z0-9_]", "_", name)[:120]
        key = (name, width)
        if key not in self.free:
            self.free[key] = "%s_w%d" % (name, width)
        return self.free[key]


def operand(ctx, op, depth):
    op = op.strip()
    m = re.match(r"^(copy|move) (_\d+)$", op)
    if m:
        return term(ctx, m.group(2), depth)
    m = re.match(r"^const (\d+)_(usize|u64|u32|u16|u8|isize|i64|i32|u128)$", op)
    if m:
        return "(_ bv%d %d)" % (int(m.group(1)), WIDTH[m.group(2)]), WIDTH[m.group(2)]
    m = re.match(r"^const (true|false)$", op)
    if m:
        return "#b1" if m.group(1) == "true" else "#b0", 1
    m = re.match(r"^(copy|move) \((.*): (usize|u64|u32|u16|u8)\)$", op)
    if m:  # field read: free variable named by the place text
        return ctx.freevar("field_" + m.group(2), WIDTH[m.group(3)]), WIDTH[m.group(3)]
    raise MirError("glue: unsupported operand %r" % op)


def term(ctx, local, depth=12):
    """-> (smt term, width)"""
    if depth <= 0:
        raise MirError("glue: definition chain too deep at " + local)
    if local in ctx.calls and local not in ctx.defs:
        cs = ctx.calls[local]
        if len(cs) != 1:
            raise MirError("glue: %s assigned by several calls" % local)
        b = cs[0]
        args = []
        for a in [x.strip() for x in (b.args or "").split(",") if x.strip()]:
            try:
                t, _ = operand(ctx, a, depth - 1)
                args.append(t)
            except MirError:
                args.append(re.sub(r"\s+", "", a))
        w = ctx.width_of(local)
        return ctx.freevar("call_" + b.callee + "__" + "_".join(args), w), w
    ds = ctx.defs.get(local, [])
    if len(ds) == 0:
        w = ctx.width_of(local)
        return ctx.freevar("param" + local, w), w
    if len(ds) != 1:
        raise MirError("glue: %s has %d definitions" % (local, len(ds)))
    rhs = ds[0]
    m = re.match(r"^(copy|move) (_\d+)$", rhs)
    if m:
        return term(ctx, m.group(2), depth - 1)
    m = re.match(r"^const ", rhs)
    if m:
        return operand(ctx, rhs, depth)
    m = re.match(r"^(copy|move) \((_\d+)\.0: (\w+)\)$", rhs)
    if m:  # result component of a checked operation
        inner = ctx.defs.get(m.group(2), [])
        if len(inner) == 1:
            mm = re.match(r"^(Add|Sub|Mul)WithOverflow\((.*), (.*)\)$", inner[0])
            if mm:
                a, wa = operand(ctx, mm.group(2), depth - 1)
                b, wb = operand(ctx, mm.group(3), depth - 1)
                op = {"Add": "bvadd", "Sub": "bvsub", "Mul": "bvmul"}[mm.group(1)]
                return "(%s %s %s)" % (op, a, b), wa
        raise MirError("glue: unsupported tuple projection " + rhs)
    m = re.match(r"^(Add|Sub|Mul|BitAnd|BitOr|BitXor)\((.*), (.*)\)$", rhs)
    if m:
        a, wa = operand(ctx, m.group(2), depth - 1)
        b, wb = operand(ctx, m.group(3), depth - 1)
        op = {"Add": "bvadd", "Sub": "bvsub", "Mul": "bvmul", "BitAnd": "bvand", "BitOr": "bvor", "BitXor": "bvxor"}[m.group(1)]
        return "(%s %s %s)" % (op, a, b), wa
    m = re.match(r"^(Eq|Ne|Lt|Le|Gt|Ge)\((.*), (.*)\)$", rhs)
    if m:
        a, wa = operand(ctx, m.group(2), depth - 1)
        b, wb = operand(ctx, m.group(3), depth - 1)
        rel = {"Eq": "(= %s %s)", "Ne": "(not (= %s %s))", "Lt": "(bvult %s %s)", "Le": "(bvule %s %s)",
               "Gt": "(bvugt %s %s)", "Ge": "(bvuge %s %s)"}[m.group(1)] % (a, b)
        return "(ite %s #b1 #b0)" % rel, 1
    m = re.match(r"^Not\((.*)\)$", rhs)
    if m:
        a, wa = operand(ctx, m.group(1), depth - 1)
        return "(bvnot %s)" % a, wa
    m = re.match(r"^(copy|move) (_\d+) as (\w+) \(IntToInt\)$", rhs)
    if m:
        a, wa = term(ctx, m.group(2), depth - 1)
        wt = WIDTH[m.group(3)]
        if wt == wa:
            return a, wa
        if wt < wa:
            return "((_ extract %d 0) %s)" % (wt - 1, a), wt
        return "((_ zero_extend %d) %s)" % (wt - wa, a), wt
    m = re.match(r"^(copy|move) \((.*): (usize|u64|u32|u16|u8)\)$", rhs)
    if m:
        return ctx.freevar("field_" + m.group(2), WIDTH[m.group(3)]), WIDTH[m.group(3)]
    raise MirError("glue: unsupported rvalue for %s: %r" % (local, rhs))


def equal_for_all(ctx, t1, t2, assumptions=()):
    """-> (verdict proved|refuted|inconclusive, detail, seconds). proved = no assignment makes them differ."""
    import time
    lines = ["(set-logic QF_BV)"]
    for (name, w), v in sorted(ctx.free.items()):
        lines.append("(declare-const %s (_ BitVec %d))" % (v, w))
    for a in assumptions:
        lines.append("(assert %s)" % a)
    lines.append("(assert (not (= %s %s)))" % (t1, t2))
    lines.append("(check-sat)")
    lines.append("(get-model)")
    smt = "\n".join(lines) + "\n"
    res = {}
    t0 = time.time()
    for solver, cmd in (("z3", ["z3", "-in", "-T:60"]), ("cvc5", ["cvc5", "--lang", "smt2", "--produce-models", "--tlimit", "60000"])):
        try:
            p = subprocess.run(cmd, input=smt, capture_output=True, text=True, timeout=90)
        except subprocess.TimeoutExpired:
            res[solver] = ("unknown", "")
            continue
        out = p.stdout.strip()
        first = out.splitlines()[0] if out else ""
        if first == "unsat":
            res[solver] = ("unsat", "")
        elif first == "sat":
            res[solver] = ("sat", out[:600])
        else:
            res[solver] = ("error", out[:300])
    dt = time.time() - t0
    vs = {v[0] for v in res.values()}
    if vs == {"unsat"}:
        return "proved", "", dt, smt
    if vs == {"sat"}:
        return "refuted", res["z3"][1], dt, smt
    return "inconclusive", "solvers: %s" % {k: v[0] for k, v in res.items()}, dt, smt

"""Event-automaton bounded model checking of one MIR function's CFG with an SMT solver.

The path through the CFG (non-unwind edges) is a sequence of symbolic block choices pc_0..pc_L,
constrained by the terminators; every step carries Boolean abstract state (e.g. "file synced",
"version published") updated by the *events* of the block entered; the property is an assertion
over that state at events / at every step. The solver (z3, cross-checked with cvc5) either shows
no path of length <= L violates it (UNSAT) or returns a path (SAT), which is reported block by block.

Everything but call ordering / success-failure branching is abstracted: data is havoc, callees are
atomic events. Sound for ordering + fault-path facts, silent about data values.
"""
import re, subprocess, time
from mir import MirError

PASSTHROUGH = re.compile(r"::(map_err|inspect_err|map|transpose|or_else|and_then)::<|::(map_err|inspect_err)$")
WRAPPERS = re.compile(
    r"(as Try>::branch|BufWriter::<.*>::new|ChecksummedWriter::<.*>::new|::from_writer|::into_inner|::get_mut|"
    r"::inner_mut|::as_file_mut|::as_file|retry_transient_io|as Deref>::deref|as DerefMut>::deref_mut|::as_ref|"
    r"::as_mut|::unwrap|::expect|::take|Option::<.*>::map|::borrow|::borrow_mut|::clone|must_use|Box::<.*>::new|"
    r"Arc::<.*>::new|::into$|as From<.*>>::from|::as_path|::parent)")


class UF:
    def __init__(self):
        self.p = {}

    def find(self, x):
        self.p.setdefault(x, x)
        while self.p[x] != x:
            self.p[x] = self.p[self.p[x]]
            x = self.p[x]
        return x

    def union(self, a, b):
        a, b = self.find(a), self.find(b)
        if a != b:
            self.p[a] = b


RE_LOCAL = re.compile(r"_\d+")


def alias_classes(fn):
    """flow-insensitive may-alias classes of locals: references, moves, projections, wrapper calls"""
    uf = UF()
    for b in fn.blocks.values():
        for s in b.stmts:
            m = re.match(r"^(\(?\*?_\d+[^=]*?) = (.*)$", s)
            if not m:
                continue
            lhs, rhs = m.group(1), m.group(2)
            lb = RE_LOCAL.search(lhs)
            if not lb:
                continue
            if rhs.startswith("const ") and "{closure" not in rhs:
                continue
            for r in RE_LOCAL.findall(rhs):
                # skip pure scalar computations (comparisons / arithmetic produce fresh values)
                if re.match(r"^(Eq|Ne|Lt|Le|Gt|Ge|Add|Sub|Mul|Div|Rem|BitAnd|BitOr|Not|Neg|discriminant|Len|"
                            r"AddWithOverflow|SubWithOverflow|MulWithOverflow)\(", rhs):
                    continue
                uf.union(lb.group(0), r)
        if b.kind == "call" and b.dest and WRAPPERS.search(b.callee):
            d = RE_LOCAL.search(b.dest)
            if d:
                for r in RE_LOCAL.findall(b.args):
                    uf.union(d.group(0), r)
    return uf


def q_chain(fn, b):
    """For a call block b whose result is consumed by `?` (possibly after map_err / inspect_err):
    returns (ok_block, err_block, passthrough_callees) or None."""
    if b.kind != "call" or not b.dest or not b.succ:
        return None
    cur = b.dest
    nb = fn.blocks[b.succ[0]]
    passed = []
    for _ in range(6):
        # plain moves between temporaries
        moved = True
        while moved:
            moved = False
            for s in nb.stmts:
                m = re.match(r"^(_\d+) = move (_\d+)$", s)
                if m and m.group(2) == cur:
                    cur = m.group(1)
                    moved = True
        if nb.kind != "call":
            return None
        args = [a.strip() for a in nb.args.split(",")] if nb.args else []
        if not args or args[0] not in ("move " + cur, "copy " + cur):
            return None
        if "as Try>::branch" in nb.callee:
            sw = fn.blocks[nb.succ[0]]
            if sw.kind != "switch":
                return None
            ok = err = None
            for v, t in sw.switch:
                if v == "0":
                    ok = t
                elif v == "1":
                    err = t
            if ok is None or err is None:
                return None
            return ok, err, passed
        if PASSTHROUGH.search(nb.callee):
            passed.append(nb.callee + "(" + nb.args + ")")
            cur = nb.dest
            if not nb.succ:
                return None
            nb = fn.blocks[nb.succ[0]]
            continue
        return None
    return None


class Automaton:
    """events: {label: set(block idx)}; state vars: {name: init bool};
    updates: [(label, var, bool)]; requires: [(label|'*', smt_expr_template over vars, message)]
    An smt_expr_template uses {var} placeholders, expanded to the step's variable (state *before* the event)."""

    def __init__(self, fn, name):
        self.fn, self.name = fn, name
        self.events, self.vars, self.updates, self.requires = {}, {}, [], []

    def event(self, label, blocks):
        self.events.setdefault(label, set()).update(blocks)
        return self

    def var(self, name, init=False):
        self.vars[name] = init
        return self

    def on(self, label, var, value):
        self.updates.append((label, var, value))
        return self

    def require(self, label, expr, msg):
        self.requires.append((label, expr, msg))
        return self


def reachable_nodes(fn):
    seen, todo = set(), [0]
    while todo:
        i = todo.pop()
        if i in seen or i not in fn.blocks or fn.blocks[i].cleanup:
            continue
        seen.add(i)
        for s in fn.blocks[i].succ:
            todo.append(s)
    return seen


def compress(aut):
    """Event-trace preserving CFG compression: keep the entry, every block carrying an event and every
    terminal block; an edge u -> v exists iff v is reachable from u through event-free blocks."""
    fn = aut.fn
    reach = reachable_nodes(fn)
    ev = set()
    for bs in aut.events.values():
        ev |= bs
    def live_succ(i):
        return [s for s in fn.blocks[i].succ if s in reach]
    kept = {0} | (ev & reach) | {i for i in reach if not live_succ(i)}
    ksucc = {}
    for u in kept:
        out, seen, todo = set(), set(), list(live_succ(u))
        while todo:
            x = todo.pop()
            if x in seen:
                continue
            seen.add(x)
            if x in kept:
                out.add(x)
            else:
                todo.extend(live_succ(x))
        ksucc[u] = sorted(out) if out else [u]
    return sorted(kept), ksucc


def encode(aut, L=None):
    fn = aut.fn
    nodes, succs = compress(aut)
    n = len(nodes)
    if L is None:
        L = 2 * n + 4
    out = ["(set-logic ALL)", "(set-option :produce-models true)"]
    V = list(aut.vars)
    for t in range(L + 1):
        out.append("(declare-const pc_%d Int)" % t)
        for v in V:
            out.append("(declare-const %s_%d Bool)" % (v, t))
    out.append("(assert (= pc_0 0))")
    # the entry block's own events fire at step 0
    init = dict(aut.vars)
    for (lbl, var, val) in aut.updates:
        if 0 in aut.events.get(lbl, ()):
            init[var] = val
    for v in V:
        out.append("(assert (= %s_0 %s))" % (v, "true" if init[v] else "false"))
    cases = " ".join("(and (= a %d) (or %s))" % (i, " ".join("(= b %d)" % s for s in sorted(set(succs[i])))) for i in nodes)
    out.append("(define-fun step ((a Int) (b Int)) Bool (or %s))" % cases)

    def at(label, t):
        bl = sorted(aut.events.get(label, ()))
        bl = [x for x in bl if x in succs]
        if not bl:
            return "false"
        return "(or %s)" % " ".join("(= pc_%d %d)" % (t, x) for x in bl)

    for t in range(L):
        out.append("(assert (step pc_%d pc_%d))" % (t, t + 1))
    # Each step has two phases. Entering block pc_{t+1} first fires its *early* events (ok:/err: - the
    # outcome of the previous call, known at block entry), giving the mid state; requirements of *late*
    # events (calls, statements, returns of this block) are evaluated on the mid state; then the late
    # events' updates give the step's final state. A stuttering terminal node does not re-fire.
    def early(lbl):
        return lbl.startswith("ok:") or lbl.startswith("err:")

    for t in range(L + 1):
        for v in V:
            out.append("(declare-const %sm_%d Bool)" % (v, t))
    for v in V:
        out.append("(assert (= %sm_0 %s_0))" % (v, v))
    for t in range(L):
        moved = "(not (= pc_%d pc_%d))" % (t, t + 1)
        for v in V:
            for phase, src, dst in (("early", "%s_%d" % (v, t), "%sm_%d" % (v, t + 1)),
                                    ("late", "%sm_%d" % (v, t + 1), "%s_%d" % (v, t + 1))):
                sel = [u for u in aut.updates if u[1] == v and early(u[0]) == (phase == "early")]
                sets = [at(lbl, t + 1) for (lbl, var, val) in sel if val]
                clrs = [at(lbl, t + 1) for (lbl, var, val) in sel if not val]
                sx = "(and %s (or false %s))" % (moved, " ".join(sets))
                cx = "(and %s (or false %s))" % (moved, " ".join(clrs))
                out.append("(assert (= %s (ite %s false (ite %s true %s))))" % (dst, cx, sx, src))
    viol = []
    for ri, (lbl, expr, msg) in enumerate(aut.requires):
        for t in range(1, L + 1):
            e = expr
            for v in V:
                e = e.replace("{" + v + "}", ("%s_%d" % (v, t - 1)) if (lbl != "*" and early(lbl)) else ("%sm_%d" % (v, t)))
            cond = "true" if lbl == "*" else "(and (not (= pc_%d pc_%d)) %s)" % (t - 1, t, at(lbl, t))
            viol.append("(and %s (not %s))" % (cond, e))
    out.append("(declare-const violated Bool)")
    out.append("(assert (= violated (or false %s)))" % " ".join(viol))
    # one flag per requirement, so a counterexample names the requirement it breaks
    per = len(viol) // max(1, len(aut.requires)) if aut.requires else 0
    for ri in range(len(aut.requires)):
        out.append("(declare-const viol_%d Bool)" % ri)
        out.append("(assert (= viol_%d (or false %s)))" % (ri, " ".join(viol[ri * per:(ri + 1) * per])))
    out.append("(assert violated)")
    out.append("(check-sat)")
    return "\n".join(out) + "\n", nodes, L, len(viol)


def run_solver(smt, solver, timeout=300, want_model=None):
    """returns (verdict, seconds, model dict or None). verdict: sat | unsat | unknown | error"""
    text = smt
    if want_model:
        text += "(get-value (%s))\n" % " ".join(want_model)
    cmd = {"z3": ["z3", "-in", "-T:%d" % timeout], "cvc5": ["cvc5", "--lang", "smt2", "--produce-models",
                                                              "--tlimit", str(timeout * 1000)]}[solver]
    t0 = time.time()
    try:
        p = subprocess.run(cmd, input=text, capture_output=True, text=True, timeout=timeout + 30)
    except subprocess.TimeoutExpired:
        return "unknown", time.time() - t0, None
    dt = time.time() - t0
    out = p.stdout
    first = out.strip().splitlines()[0] if out.strip() else ""
    if "(error" in out and first != "unsat":
        # get-value after unsat legitimately errors; anything else is inconclusive
        if not (first == "unsat"):
            return "error", dt, {"raw": out[:400]}
    if first not in ("sat", "unsat"):
        return "unknown", dt, {"raw": out[:400]}
    model = None
    if first == "sat" and want_model:
        model = {}
        for m in re.finditer(r"\((\w+) (\(- \d+\)|-?\d+|true|false)\)", out):
            val = m.group(2)
            if val.startswith("(-"):
                val = "-" + val[3:-1]
            model[m.group(1)] = val
    return first, dt, model


def describe_path(aut, model, L):
    fn = aut.fn
    lines = []
    prev = None
    for t in range(L + 1):
        pc = int(model.get("pc_%d" % t, -1))
        if pc == prev:
            continue
        prev = pc
        b = fn.blocks.get(pc)
        if b is None:
            continue
        labels = [l for l, bs in aut.events.items() if pc in bs]
        state = {v: model.get("%s_%d" % (v, t)) for v in aut.vars}
        desc = b.term if b.kind == "call" else b.kind
        if b.kind == "call":
            desc = "%s = %s(%s)" % (b.dest, b.callee[:110], b.args[:60])
        if labels or b.kind in ("return",):
            lines.append("  step %3d bb%-4d %-28s %s   state=%s" % (t, pc, ",".join(labels), desc[:170], state))
    return lines


def check(aut, L=None, timeout=300, cross=True):
    """-> dict(verdict proved|refuted|inconclusive, reason, path, stats)"""
    smt, nodes, L, nviol = encode(aut, L)
    want = ["pc_%d" % t for t in range(L + 1)] + ["%s_%d" % (v, t) for v in aut.vars for t in range(L + 1)] + \
           ["viol_%d" % i for i in range(len(aut.requires))]
    v1, t1, m1 = run_solver(smt, "z3", timeout, want)
    res = {"query": aut.name, "function": aut.fn.name, "nodes": len(nodes), "steps_bound": L,
           "assertions": smt.count("(assert"), "violation_disjuncts": nviol, "z3": v1, "z3_s": round(t1, 2),
           "smt_bytes": len(smt)}
    if v1 in ("error", "unknown"):
        res.update(verdict="inconclusive", reason="z3: %s %s" % (v1, (m1 or {}).get("raw", "")))
        return res
    if cross:
        v2, t2, _ = run_solver(smt, "cvc5", timeout)
        res.update(cvc5=v2, cvc5_s=round(t2, 2))
        if v2 in ("sat", "unsat") and v2 != v1:
            res.update(verdict="inconclusive", reason="z3 (%s) and cvc5 (%s) disagree" % (v1, v2))
            return res
    if v1 == "unsat":
        res.update(verdict="proved", reason="")
    else:
        broken = [aut.requires[i][2] for i in range(len(aut.requires)) if m1.get("viol_%d" % i) == "true"]
        res.update(verdict="refuted", reason="; ".join(broken) or "a path violating a requirement exists",
                   path=describe_path(aut, m1, L))
    return res

"""Engine M driver: dump MIR of /repo's working tree, build the event automata, discharge them."""
import fcntl, hashlib, json, os, re, subprocess, sys, time

HERE = os.path.dirname(os.path.abspath(__file__))
VERIF = os.path.dirname(HERE)
sys.path.insert(0, HERE)
import mir, bmc, specs  # noqa: E402

REPO = os.environ.get("VERIF_REPO", "/repo")
SCRATCH_ROOT = os.environ.get("VERIF_SCRATCH", "/var/tmp/verif-scratch")


def tree_digest(root):
    h = hashlib.sha256()
    for base, dirs, files in os.walk(os.path.join(root, "src")):
        dirs.sort()
        for fn in sorted(files):
            p = os.path.join(base, fn)
            h.update(os.path.relpath(p, root).encode() + b"\0")
            with open(p, "rb") as f:
                h.update(hashlib.sha256(f.read()).digest())
    with open(os.path.join(root, "Cargo.toml"), "rb") as f:
        h.update(f.read())
    return h.hexdigest()


def mir_dump(log):
    """-> (path to lsm.mir, source digest, seconds). Cached per source digest."""
    d = os.path.join(SCRATCH_ROOT, "mir")
    os.makedirs(d, exist_ok=True)
    lock = open(os.path.join(d, ".lock"), "w")
    fcntl.flock(lock, fcntl.LOCK_EX)
    try:
        src = os.path.join(d, "lsm")
        subprocess.run(["rsync", "-a", "--checksum", "--delete", "--exclude", "/target", "--exclude", "/.git",
                        "--exclude", "/fuzz", "--exclude", "/tests", "--exclude", "/test_fixture",
                        REPO + "/", src + "/"], check=True)
        dig = tree_digest(src)
        out = os.path.join(d, "lsm.mir")
        stamp = os.path.join(d, "lsm.mir.digest")
        if os.path.exists(out) and os.path.exists(stamp) and open(stamp).read() == dig:
            return out, dig, 0.0
        t0 = time.time()
        os.utime(os.path.join(src, "src/lib.rs"))
        env = dict(os.environ)
        env["CARGO_NET_OFFLINE"] = "true"
        env.pop("RUSTFLAGS", None)
        with open(out + ".tmp", "w") as fo, open(os.path.join(d, "dump.err"), "w") as fe:
            p = subprocess.run(["cargo", "+nightly", "rustc", "--offline", "--lib", "--target-dir", os.path.join(d, "tgt"),
                                "--", "-Zunpretty=mir", "-C", "debug-assertions=off", "-C", "overflow-checks=on"],
                               cwd=src, env=env, stdout=fo, stderr=fe)
        if p.returncode != 0 or os.path.getsize(out + ".tmp") < 100000:
            raise mir.MirError("MIR dump failed (rc=%d): %s" % (p.returncode, open(os.path.join(d, "dump.err")).read()[-600:]))
        os.replace(out + ".tmp", out)
        with open(stamp, "w") as f:
            f.write(dig)
        return out, dig, time.time() - t0
    finally:
        fcntl.flock(lock, fcntl.LOCK_UN)


def native_validation(prop, tier, refuted, log):
    """Native replay / translator validation with the real build (no models): strace-driven crash images
    (C04 / C05 / C16 / C20) and single-bit corruption of every persisted file (C10). Runs in the thorough
    tier, and in any tier when an engine-M obligation of that property was refuted (= replay). It can only
    add a violation that was *observed* on the real code; it never turns a refutation into a pass."""
    out = []
    if not (tier == "thorough" or refuted):
        return out
    sys.path.insert(0, os.path.join(VERIF, "lib"))
    try:
        import crashsim, corruptsim
    except Exception as e:  # pragma: no cover
        return [{"ob": "native", "engine": "native replay", "query": "import", "verdict": "inconclusive", "reason": str(e)}]
    t0 = time.time()
    try:
        if prop in ("C04", "C05", "C16", "C20"):
            n, probs = crashsim.validate_order()
            res = {"ob": "V.order", "obligation": "V.order", "engine": "native (strace of the real build)", "query": "syscall order of persist_version / rewrite_atomic / table writer on the fault-free path equals the order the MIR automata assume",
                   "verdict": "proved" if not probs else "refuted", "reason": "; ".join(probs)[:300], "validated": n, "wall_s": round(time.time() - t0, 1)}
            if probs:
                rdir = os.path.join(VERIF, "replays", prop)
                os.makedirs(rdir, exist_ok=True)
                res["replay"] = os.path.join(rdir, "syscall-order.json")
                json.dump(probs, open(res["replay"], "w"), indent=1)
            out.append(res)
            log("[V.order] %-10s %d syscall-order checks against the real build %s" % (res["verdict"], n, res["reason"][:100]))
            for wl, blob in (("std", False), ("blob", True)):
                t1 = time.time()
                rep = crashsim.explore(wl, blob, max_images=2000)
                bad = rep["unopenable"] + rep["mixed"]
                res = {"ob": "V.crash", "obligation": "V.crash", "engine": "native (crash images rebuilt from strace, reopened with the real Config::open)",
                       "query": "workload %s: every POSIX-permitted crash image opens and equals the state at an adjacent operation boundary" % wl,
                       "verdict": "proved" if not bad else "refuted", "reason": ("%d unopenable / %d mixed images, e.g. %s" % (len(rep["unopenable"]), len(rep["mixed"]), json.dumps(bad[0], default=str)[:300])) if bad else "",
                       "validated": rep["images"], "wall_s": round(time.time() - t1, 1), "bound": "%d syscall events, %d images (every event prefix x {all / none / each single unsynced directory op lost})" % (rep["events"], rep["images"])}
                if bad:
                    rdir = os.path.join(VERIF, "replays", prop)
                    os.makedirs(rdir, exist_ok=True)
                    rp = os.path.join(rdir, "crashsim.%s.json" % wl)
                    json.dump(bad[:10], open(rp, "w"), indent=1, default=str)
                    res["replay"] = rp
                out.append(res)
                log("[V.crash] %-10s workload %-5s %d crash images %s" % (res["verdict"], wl, rep["images"], res["reason"][:120]))
        if prop == "C10":
            for wl in ("std2", "blob2"):
                t1 = time.time()
                rep = corruptsim.run(wl, wl.startswith("blob"), stride=1 if tier == "thorough" else 7)
                bad = rep["different"]
                res = {"ob": "V.corrupt", "obligation": "V.corrupt", "engine": "native (bit flips / truncations of every persisted file, reopened with the real code)",
                       "query": "workload %s: every single-bit flip / truncation is reported or harmless" % wl,
                       "verdict": "proved" if not bad else "refuted", "reason": ("%d corruptions served different data, e.g. %s" % (len(bad), json.dumps(bad[0])[:300])) if bad else "",
                       "validated": rep["cases"], "wall_s": round(time.time() - t1, 1), "bound": "%d cases: %d errors, %d identical, %d panics" % (rep["cases"], rep["error"], rep["identical"], rep["panic"])}
                if bad:
                    rdir = os.path.join(VERIF, "replays", prop)
                    os.makedirs(rdir, exist_ok=True)
                    rp = os.path.join(rdir, "corruptsim.%s.json" % wl)
                    json.dump(bad[:10], open(rp, "w"), indent=1)
                    res["replay"] = rp
                out.append(res)
                log("[V.corrupt] %-10s workload %-5s %d cases %s" % (res["verdict"], wl, rep["cases"], res["reason"][:120]))
    except Exception as e:
        out.append({"ob": "native", "obligation": "native", "engine": "native replay", "query": "crashsim / corruptsim", "verdict": "inconclusive", "reason": "%s: %s" % (type(e).__name__, e)})
        log("[native] inconclusive %s: %s" % (type(e).__name__, e))
    return out


def run(prop, obligations, tier, scratch, log):
    results = _run(prop, obligations, tier, scratch, log)
    refuted = any(r.get("verdict") == "refuted" for r in results)
    results += native_validation(prop, tier, refuted, log)
    return results


def _run_x(prop, ob, build, a, tier, dig, log):
    os.environ["VERIF_TIER"] = tier
    try:
        r = a.check(600 if tier == "quick" else 2400)
        canary = None
        seed = int(os.environ.get("VERIF_SEED", "0") or 0)
        if r["verdict"] == "proved" and getattr(a, "canary", None) and (tier == "thorough" or seed % 3 == 0):
            c = a.canary(600 if tier == "quick" else 2400)
            canary = c["verdict"]
            if c["verdict"] != "refuted":
                r = dict(r, verdict="inconclusive", reason="canary (same encoding with the sort model removed) was not refuted: %s" % c.get("reason", ""))
    except mir.MirError as e:
        log("[%s] inconclusive %-34s %s" % (ob["ob"], build.__name__, e))
        return {"ob": ob["ob"], "engine": "mir/symex", "query": build.__name__, "verdict": "inconclusive",
                "reason": "symbolic executor could not follow the code (fails closed): %s" % e}
    res = {"ob": ob["ob"], "obligation": ob["ob"], "engine": "mir/symex (bounded symbolic execution of MIR; %s)" % r.get("solvers", ""),
           "query": a.name, "builder": build.__name__, "verdict": r["verdict"], "reason": r.get("reason", ""),
           "functions_encoded": [a.fn.name + " (MIR, %d blocks) and the closures it passes" % len(a.fn.blocks)],
           "events": {}, "requirements": [m for (_, _, m) in a.requires],
           "bound": "L0 shapes %s (tables per run); every path of the function for each shape (%d paths, %d feasible); integer contents symbolic at their real widths" % (
               getattr(a, "shapes", "?"), r.get("paths", 0), r.get("feasible_paths", 0)),
           "smt_assertions": r.get("assertions", 0), "z3": r.get("z3"), "z3_s": r.get("z3_s", 0), "cvc5": r.get("cvc5"),
           "cvc5_s": r.get("cvc5_s"), "solver_s": (r.get("z3_s") or 0) + (r.get("cvc5_s") or 0),
           "states": r.get("assertions", 0), "transitions": r.get("queries", 0), "source_digest": dig,
           "glue_facts": [{"fact": g[0], "verdict": g[1], "solver_s": round(g[2], 3)} for g in getattr(a, "glue", [])],
           "queries": r.get("queries"), "cross_checked": r.get("cross_checked"), "cross_unknown": r.get("cross_unknown"),
           "covered_outcomes": r.get("covered_outcomes"), "canary": canary,
           "assumptions": ["engine X: callees are replaced by the models listed here; anything without a model fails closed"] + list(r.get("assumptions", []))}
    if r["verdict"] == "refuted":
        rdir = os.path.join(VERIF, "replays", prop)
        os.makedirs(rdir, exist_ok=True)
        rp = os.path.join(rdir, "mir.%s.%s.txt" % (ob["ob"], build.__name__))
        with open(rp, "w") as f:
            f.write("# engine X counterexample (property %s, obligation %s)\n# %s\n# function: %s\n# violated: %s\n"
                    "# Inputs below are a solver model for one path of the compiled function's MIR (digest %s); the path is listed by basic block.\n"
                    "# Not replayed natively: table creation times and sizes cannot be forced through the public API.\n" % (
                        prop, ob["ob"], a.name, a.fn.name, r["reason"], dig[:16]))
            f.write("\n".join(r.get("path", [])) + "\n")
        res["replay"] = rp
        res["path"] = r.get("path", [])
    log("[%s] %-10s %-60s paths=%s queries=%s decide=%.2fs cross=%ss %s" % (
        ob["ob"], r["verdict"], a.name[:60], r.get("paths"), r.get("queries"), r.get("z3_s", 0), r.get("cvc5_s"), r.get("reason", "")[:140]))
    return res


def _run(prop, obligations, tier, scratch, log):
    results = []
    os.environ["VERIF_TIER"] = tier  # spec builders choose their shapes by tier
    try:
        path, dig, dt = mir_dump(log)
        log("[mir] dump %s (%.0fs) digest=%s" % ("rebuilt" if dt else "cached", dt, dig[:12]))
        fns = mir.parse(path)
    except Exception as e:  # fail closed
        for ob in obligations:
            results.append({"ob": ob["ob"], "engine": "mir/smt", "query": ob.get("spec", ""), "verdict": "inconclusive",
                            "reason": "MIR dump / parse failed: %s" % e})
        return results
    for ob in obligations:
        builders = specs.SPECS.get(ob["spec"])
        if builders is None:
            results.append({"ob": ob["ob"], "engine": "mir/smt", "query": ob["spec"], "verdict": "inconclusive",
                            "reason": "no spec registered"})
            continue
        only = ob.get("builders")
        for build in builders:
            if only and build.__name__ not in only:
                continue
            try:
                auts = build(fns)
            except mir.MirError as e:
                results.append({"ob": ob["ob"], "engine": "mir/smt", "query": build.__name__, "verdict": "inconclusive",
                                "reason": "encoder could not match the code (fails closed): %s" % e})
                log("[%s] inconclusive %-34s %s" % (ob["ob"], build.__name__, e))
                continue
            except Exception as e:  # parser / encoder bug: inconclusive, never a verdict
                results.append({"ob": ob["ob"], "engine": "mir/smt", "query": build.__name__, "verdict": "inconclusive",
                                "reason": "encoder error %s: %s" % (type(e).__name__, e)})
                log("[%s] inconclusive %-34s %s: %s" % (ob["ob"], build.__name__, type(e).__name__, e))
                continue
            if ob.get("match"):
                auts = [a for a in auts if re.search(ob["match"], a.name)]
                if not auts:
                    results.append({"ob": ob["ob"], "engine": "mir/smt", "query": build.__name__, "verdict": "inconclusive",
                                    "reason": "no query of %s matches %r (vacuous selection)" % (ob["ob"], ob["match"])})
                    continue
            for a in auts:
                if hasattr(a, "check"):  # engine X (symbolic execution of MIR with data): xspecs.XCheck
                    results.append(_run_x(prop, ob, build, a, tier, dig, log))
                    continue
                if not a.requires:  # an automaton without requirements proves nothing: never report it as proved
                    results.append({"ob": ob["ob"], "engine": "mir/smt", "query": a.name, "verdict": "inconclusive",
                                    "reason": "spec builder produced no requirement (vacuous)"})
                    continue
                r = bmc.check(a, timeout=300 if tier == "quick" else 1200)
                res = {"ob": ob["ob"], "obligation": ob["ob"], "engine": "mir/smt (z3 + cvc5 cross-check)",
                       "query": a.name, "builder": build.__name__, "verdict": r["verdict"], "reason": r.get("reason", ""),
                       "functions_encoded": [a.fn.name + " (MIR, %d live blocks)" % len(bmc.reachable_nodes(a.fn))],
                       "events": {k: sorted(v) for k, v in a.events.items()},
                       "requirements": [m for (_, _, m) in a.requires],
                       "bound": "event-trace compressed CFG of %d nodes, paths of <= %d event steps (loops unrolled up to that length); non-unwind edges; callees atomic; data havoc" % (r["nodes"], r["steps_bound"]),
                       "smt_assertions": r["assertions"], "z3": r["z3"], "z3_s": r["z3_s"], "cvc5": r.get("cvc5"),
                       "cvc5_s": r.get("cvc5_s"), "solver_s": r["z3_s"] + (r.get("cvc5_s") or 0),
                       "states": r["assertions"], "transitions": r["violation_disjuncts"], "source_digest": dig,
                       "glue_facts": [{"fact": g[0], "verdict": g[1], "solver_s": round(g[2], 3)} for g in getattr(a, "glue", [])],
                       "assumptions": ["engine M: callee effects are atomic events; data values are havoc; unwind (panic) edges excluded",
                                       "engine M glue: calls / field reads in integer slices are pure (free variables named by callee + arguments)",
                                       "engine M: `ok:X` = the Continue edge of the `?` applied to X's result"]}
                if r["verdict"] == "refuted":
                    rdir = os.path.join(VERIF, "replays", prop)
                    os.makedirs(rdir, exist_ok=True)
                    rp = os.path.join(rdir, "mir.%s.%s.txt" % (ob["ob"], build.__name__))
                    with open(rp, "w") as f:
                        f.write("# engine M counterexample (property %s, obligation %s)\n# %s\n# function: %s\n# violated: %s\n"
                                "# The path below is a path of the compiled function's MIR control-flow graph (cargo +nightly rustc -- -Zunpretty=mir\n"
                                "# on /repo's working tree, digest %s); it is re-derived on every run of ./check %s.\n" % (
                                    prop, ob["ob"], a.name, a.fn.name, r["reason"], dig[:16], prop))
                        f.write("\n".join(r.get("path", [])) + "\n")
                    res["replay"] = rp
                    res["path"] = r.get("path", [])
                results.append(res)
                log("[%s] %-10s %-60s nodes=%d L=%d z3=%.2fs cvc5=%ss %s" % (
                    ob["ob"], r["verdict"], a.name[:60], r["nodes"], r["steps_bound"], r["z3_s"], r.get("cvc5_s"), r.get("reason", "")[:140]))
    return results

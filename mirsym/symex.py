"""Engine X: bounded symbolic execution of one MIR function (plus the closures it passes around) with
small models of the library calls it makes -> one SMT query per explored path and requirement.

Unlike engine M (bmc.py: control flow only, data havoc) the *data* is symbolic here: integer locals are
bit-vector terms of their real width, checked arithmetic produces (value, overflow) pairs, `Option`s
carry a symbolic discriminant, branches on symbolic conditions fork the path. Collections the function
owns (a Vec it pushes to, a HashSet it inserts into, iterators over the input) are Python-side objects of
*concrete shape* whose elements are symbolic - "shapes concrete, contents symbolic". Every callee must
have a model in the table handed to the executor (a missing model, an unknown statement or place
raises MirError = the obligation is inconclusive, never a verdict).
"""
import copy
import itertools
import re
import subprocess
import time

import mir
from mir import MirError

INT_W = {"usize": 64, "u64": 64, "u32": 32, "u16": 16, "u8": 8, "u128": 128, "isize": 64, "i64": 64, "i32": 32,
         "i16": 16, "i8": 8, "i128": 128}


# ---------------------------------------------------------------------------------------------
# values
# ---------------------------------------------------------------------------------------------

class BV:
    def __init__(self, w, t):
        self.w, self.t = w, t

    def __repr__(self):
        return "BV%d(%s)" % (self.w, self.t)


class B:  # boolean
    def __init__(self, t):
        self.t = t if isinstance(t, str) else ("true" if t else "false")

    def const(self):
        return {"true": True, "false": False}.get(self.t)

    def __repr__(self):
        return "B(%s)" % self.t


class Tup:
    def __init__(self, items):
        self.items = list(items)


class Opt:
    """Option / Result-like two-variant value: cond (B) = is Some / is Ok; val = payload"""

    def __init__(self, cond, val):
        self.cond, self.val = cond, val


class Enum:
    def __init__(self, variant, payload=None):
        self.variant, self.payload = variant, payload


class Sum2:
    """two-variant enum with a symbolic discriminant: c1 (B) = 'is the variant numbered 1'"""

    def __init__(self, c1, n0, n1, p0, p1):
        self.c1, self.n0, self.n1, self.p0, self.p1 = c1, n0, n1, p0, p1


class SymEnum:
    """fieldless-or-tuple enum with a symbolic discriminant (BV) and per-variant payloads"""

    def __init__(self, discr, variants, payloads):
        self.discr, self.variants, self.payloads = discr, variants, payloads


class FnItem:
    def __init__(self, path):
        self.path = path


class Agg:
    def __init__(self, name, fields):
        self.name, self.fields = name, fields


class Ref:
    def __init__(self, target):  # ("local", name) or a value / object
        self.target = target


class Closure:
    def __init__(self, span, captures):
        self.span, self.captures = span, captures


class Obj:
    """opaque / modelled library object; `kind` selects the call models that accept it"""

    def __init__(self, kind, **kw):
        self.kind = kind
        self.__dict__.update(kw)

    def field(self, ex, i, ty):
        raise MirError("symex: field .%d of opaque %s" % (i, self.kind))

    def __repr__(self):
        return "Obj(%s)" % self.kind


def bnot(b):
    c = b.const()
    if c is not None:
        return B(not c)
    return B("(not %s)" % b.t)


def band(*bs):
    ts = []
    for b in bs:
        c = b.const()
        if c is False:
            return B(False)
        if c is None:
            ts.append(b.t)
    if not ts:
        return B(True)
    return B(ts[0] if len(ts) == 1 else "(and %s)" % " ".join(ts))


def bor(*bs):
    return bnot(band(*[bnot(b) for b in bs]))


def ite(c, a, b):
    cc = c.const()
    if cc is not None:
        return a if cc else b
    if isinstance(a, BV):
        return BV(a.w, "(ite %s %s %s)" % (c.t, a.t, b.t))
    if isinstance(a, B):
        return B("(ite %s %s %s)" % (c.t, a.t, b.t))
    raise MirError("symex: ite over non-scalar values")


def bvconst(v, w):
    return BV(w, "(_ bv%d %d)" % (v % (1 << w), w))


def bv_is_const(x):
    m = re.fullmatch(r"\(_ bv(\d+) \d+\)", x.t)
    return int(m.group(1)) if m else None


# ---------------------------------------------------------------------------------------------
# places
# ---------------------------------------------------------------------------------------------

def _top_find(s, needle):
    depth = 0
    i = 0
    while i < len(s):
        c = s[i]
        if c in "([{":
            depth += 1
        elif c in ")]}":
            depth -= 1
        elif depth == 0 and s.startswith(needle, i):
            return i
        i += 1
    return -1


def parse_place(s):
    s = s.strip()
    if re.fullmatch(r"_\d+", s):
        return ("local", s)
    if s.startswith("(*") and s.endswith(")") and _matching(s, 0) == len(s) - 1:
        return ("deref", parse_place(s[2:-1]))
    if s.startswith("(") and s.endswith(")") and _matching(s, 0) == len(s) - 1:
        inner = s[1:-1]
        k = _top_find(inner, ": ")
        if k >= 0:
            left, ty = inner[:k], inner[k + 2:]
            base, idx = left.rsplit(".", 1)
            return ("field", parse_place(base), int(idx), ty)
        k = _top_find(inner, " as ")
        if k >= 0:
            return ("downcast", parse_place(inner[:k]), inner[k + 4:].strip())
    raise MirError("symex: unsupported place %r" % s)


def _matching(s, i):
    depth = 0
    for j in range(i, len(s)):
        if s[j] == "(":
            depth += 1
        elif s[j] == ")":
            depth -= 1
            if depth == 0:
                return j
    return -1


# ---------------------------------------------------------------------------------------------
# executor
# ---------------------------------------------------------------------------------------------

class Path:
    def __init__(self):
        self.pc = []  # list of SMT boolean terms
        self.trace = []  # (fn name, block idx)
        self.notes = []

    def clone(self):
        return copy.deepcopy(self)


class Executor:
    def __init__(self, fns, models, max_blocks=4000, max_paths=20000):
        self.fns = fns
        self.models = [(re.compile(r), h) for r, h in models]
        self.decls = {}
        self.max_blocks, self.max_paths = max_blocks, max_paths
        self.paths_done = 0
        self.assumptions = set()
        self.by_span = {}
        for f in fns:
            sp = f.closure_span()
            if sp:
                self.by_span[sp] = f
        self.fresh_n = 0
        # multiplication by a constant can be abstracted: the product becomes a variable whose defining
        # equation is discharged separately (one lemma query) - see xspecs
        self.abstract_mul = False
        self.mul_defs = {}

    # -- symbols
    def sym(self, name, w):
        name = re.sub(r"[^A-Za-z0-9_]", "_", name)
        self.decls[name] = "(_ BitVec %d)" % w
        return BV(w, name)

    def symb(self, name):
        name = re.sub(r"[^A-Za-z0-9_]", "_", name)
        self.decls[name] = "Bool"
        return B(name)

    # -- places
    def read(self, env, place):
        k = place[0]
        if k == "local":
            if place[1] not in env:
                raise MirError("symex: read of unassigned %s" % place[1])
            return env[place[1]]
        if k == "deref":
            v = self.read(env, place[1])
            if isinstance(v, Ref):
                t = v.target
                if isinstance(t, tuple) and t and t[0] == "local":
                    return env[t[1]]
                return t
            if isinstance(v, Obj):  # smart pointers modelled as the pointee
                return v
            raise MirError("symex: deref of %r" % (v,))
        if k == "field":
            v = self.read(env, place[1])
            if isinstance(v, Tup):
                return v.items[place[2]]
            if isinstance(v, Closure):
                return v.captures[place[2]]
            if isinstance(v, Agg):  # MIR prints aggregate fields in declaration (= index) order
                vals = list(v.fields.values())
                if place[2] >= len(vals):
                    raise MirError("symex: field .%d of aggregate %s" % (place[2], v.name))
                return vals[place[2]]
            if isinstance(v, Obj):
                return v.field(self, place[2], place[3])
            if isinstance(v, Opt) and place[2] == 0:  # ((x as Some).0: T) arrives as field of the downcast
                return v.val
            raise MirError("symex: field .%d of %r" % (place[2], v))
        if k == "downcast":
            v = self.read(env, place[1])
            if isinstance(v, (Opt, Enum, Sum2, SymEnum)):
                return _Downcast(v, place[2])
            raise MirError("symex: downcast of %r" % (v,))
        raise MirError("symex: place kind %s" % k)

    def operand(self, env, op):
        op = op.strip()
        m = re.match(r"^(copy|move) (.*)$", op)
        if m:
            v = self.read(env, parse_place(m.group(2)))
            if isinstance(v, _Downcast):
                raise MirError("symex: bare downcast used as operand")
            return v
        m = re.match(r"^const (\d+)_(\w+)$", op)
        if m and m.group(2) in INT_W:
            return bvconst(int(m.group(1)), INT_W[m.group(2)])
        m = re.match(r"^const (true|false)$", op)
        if m:
            return B(m.group(1) == "true")
        m = re.match(r"^const ZeroSized: \{closure@([^}]+)\}$", op)
        if m:
            return Closure(m.group(1), [])
        m = re.match(r"^const \(\)$", op)
        if m:
            return Tup([])
        if re.match(r"^const .*::promoted\[\d+\]$", op):
            return Obj("Promoted")
        m = re.match(r'^const b?"(.*)"$', op)
        if m:
            return Obj("Lit", s=m.group(1))
        if re.fullmatch(r"[A-Za-z_][\w:<>', ]*", op) and "::" in op:
            return FnItem(op)
        m = re.match(r"^const ([A-Za-z_][\w:<>', ]*)$", op)
        if m:
            return Obj("Const", text=m.group(1))
        raise MirError("symex: unsupported operand %r" % op)

    def rvalue(self, env, rv, dest_ty):
        rv = rv.strip()
        if rv.startswith("no_retag "):
            rv = rv[len("no_retag "):]
        if re.fullmatch(r"[A-Za-z_][\w]*(::[A-Za-z_]\w*)*::[A-Z]\w*", rv) and not rv.startswith("const"):
            return Enum(rv.rsplit("::", 1)[1], [])
        if rv.startswith("copy ") or rv.startswith("move ") or rv.startswith("const "):
            m = re.match(r"^(copy|move|const) (.*) as .* \((PointerCoercion\(.*\)|PtrToPtr|Transmute)\)$", rv)
            if m:
                return self.operand(env, "%s %s" % (m.group(1), m.group(2)))
            m = re.match(r"^(copy|move) (.*) as (\w+) \(IntToInt\)$", rv)
            if m:
                v = self.operand(env, "%s %s" % (m.group(1), m.group(2)))
                return self.int_cast(v, INT_W[m.group(3)], signed=False)
            return self.operand(env, rv)
        m = re.match(r"^&(mut |raw const |raw mut )?(.*)$", rv)
        if m:
            pl = parse_place(m.group(2))
            if pl[0] == "local":
                return Ref(("local", pl[1]))
            v = self.read(env, pl)
            if isinstance(v, _Downcast):
                raise MirError("symex: reference to a bare downcast")
            return Ref(v)
        m = re.match(r"^(Gt|Ge|Lt|Le|Eq|Ne|Add|Sub|Mul|BitAnd|BitOr|BitXor|AddWithOverflow|SubWithOverflow|MulWithOverflow|AddUnchecked|SubUnchecked)\((.*)\)$", rv)
        if m:
            a, b = [self.operand(env, x) for x in mir.split_top(m.group(2))]
            return self.binop(m.group(1), a, b)
        m = re.match(r"^Not\((.*)\)$", rv)
        if m:
            a = self.operand(env, m.group(1))
            if isinstance(a, B):
                return bnot(a)
            return BV(a.w, "(bvnot %s)" % a.t)
        m = re.match(r"^PtrMetadata\((.*)\)$", rv)
        if m:
            v = self.operand(env, m.group(1))
            while isinstance(v, Ref) and not isinstance(v.target, tuple):
                v = v.target
            if isinstance(v, Obj) and hasattr(v, "items"):
                return bvconst(len(v.items), 64)
            raise MirError("symex: PtrMetadata of %r" % (v,))
        m = re.match(r"^discriminant\((.*)\)$", rv)
        if m:
            v = self.read(env, parse_place(m.group(1)))
            if isinstance(v, Opt):
                return _Discr(v.cond)
            if isinstance(v, Sum2):
                return _Discr(v.c1)
            if isinstance(v, SymEnum):
                return v.discr
            if isinstance(v, Enum):
                return _Discr(None, v.variant)
            raise MirError("symex: discriminant of %r" % (v,))
        m = re.match(r"^\{closure@([^}]+)\}( \{(.*)\})?$", rv)
        if m:
            caps = []
            if m.group(3):
                for part in mir.split_top(m.group(3)):
                    caps.append(self.operand(env, part.split(": ", 1)[1]))
            return Closure(m.group(1), caps)
        m = re.match(r"^(?:std::option::)?Option::<.*>::None$", rv)
        if m:
            return Opt(B(False), None)
        m = re.match(r"^(?:std::option::)?Option::<.*>::Some\((.*)\)$", rv)
        if m:
            return Opt(B(True), self.operand(env, m.group(1)))
        m = re.match(r"^(?:std::cmp::)?Reverse::<.*?>\((.*)\)$", rv)
        if m:
            return Enum("Reverse", [self.operand(env, m.group(1))])
        m = re.match(r"^([A-Za-z_][\w:<>, ()&'\[\]]*?)::([A-Z]\w*)(\((.*)\))?$", rv)
        if m and m.group(1).count("(") != m.group(1).count(")"):
            m = None
        if m:
            payload = [self.operand(env, x) for x in mir.split_top(m.group(4))] if m.group(4) else []
            return Enum(m.group(2), payload)
        m = re.match(r"^([A-Za-z_][\w:<>', ]*) \{ (.*) \}$", rv)
        if m:
            fields = {}
            for part in mir.split_top(m.group(2)):
                k, v = part.split(": ", 1)
                fields[k.strip()] = self.operand(env, v)
            return Agg(m.group(1), fields)
        m = re.match(r"^\[(.*)\]$", rv)
        if m:
            return Tup([self.operand(env, x) for x in mir.split_top(m.group(1))])
        m = re.match(r"^\((.*)\)$", rv)
        if m and "," in rv:
            return Tup([self.operand(env, x) for x in mir.split_top(m.group(1))])
        raise MirError("symex: unsupported rvalue %r" % rv)

    def int_cast(self, v, w, signed):
        if not isinstance(v, BV):
            raise MirError("symex: integer cast of %r" % (v,))
        if w == v.w:
            return v
        k = bv_is_const(v)
        if k is not None and not signed:
            return bvconst(k % (1 << w), w)
        if w < v.w:
            return BV(w, "((_ extract %d 0) %s)" % (w - 1, v.t))
        return BV(w, "((_ %s %d) %s)" % ("sign_extend" if signed else "zero_extend", w - v.w, v.t))

    def binop(self, op, a, b):
        if isinstance(a, B) and isinstance(b, B):
            if op == "Eq":
                return B("(= %s %s)" % (a.t, b.t))
            if op == "Ne":
                return B("(not (= %s %s))" % (a.t, b.t))
            if op == "BitAnd":
                return band(a, b)
            if op == "BitOr":
                return bor(a, b)
        if not (isinstance(a, BV) and isinstance(b, BV) and a.w == b.w):
            raise MirError("symex: binop %s on %r, %r" % (op, a, b))
        w = a.w
        ka, kb = bv_is_const(a), bv_is_const(b)
        if ka is not None and kb is not None and op in ("Gt", "Ge", "Lt", "Le", "Eq", "Ne"):
            return B({"Gt": ka > kb, "Ge": ka >= kb, "Lt": ka < kb, "Le": ka <= kb, "Eq": ka == kb, "Ne": ka != kb}[op])
        cmpo = {"Gt": "bvugt", "Ge": "bvuge", "Lt": "bvult", "Le": "bvule"}
        if op in cmpo:  # unsigned only: signed integer types are rejected at declaration
            return B("(%s %s %s)" % (cmpo[op], a.t, b.t))
        if op == "Eq":
            return B("(= %s %s)" % (a.t, b.t))
        if op == "Ne":
            return B("(not (= %s %s))" % (a.t, b.t))
        ar = {"Add": "bvadd", "Sub": "bvsub", "Mul": "bvmul", "BitAnd": "bvand", "BitOr": "bvor", "BitXor": "bvxor",
              "AddUnchecked": "bvadd", "SubUnchecked": "bvsub"}
        if op in ar:
            return BV(w, "(%s %s %s)" % (ar[op], a.t, b.t))
        if op == "AddWithOverflow":
            s = "(bvadd %s %s)" % (a.t, b.t)
            return Tup([BV(w, s), B("(bvult %s %s)" % (s, a.t))])
        if op == "SubWithOverflow":
            return Tup([BV(w, "(bvsub %s %s)" % (a.t, b.t)), B("(bvult %s %s)" % (a.t, b.t))])
        if op == "MulWithOverflow" and self.abstract_mul and (bv_is_const(a) is not None or bv_is_const(b) is not None):
            if bv_is_const(a) is not None:
                a, b = b, a
            c = bv_is_const(b)
            key = (a.t, c, w)
            if key not in self.mul_defs:
                k = len(self.mul_defs)
                self.mul_defs[key] = dict(var=self.sym("mulc_%d" % k, w).t, ovf=self.symb("mulovf_%d" % k).t, a=a.t, c=c, w=w)
            d = self.mul_defs[key]
            return Tup([BV(w, d["var"]), B(d["ovf"])])
        if op == "MulWithOverflow":
            za, zb = "((_ zero_extend %d) %s)" % (w, a.t), "((_ zero_extend %d) %s)" % (w, b.t)
            full = "(bvmul %s %s)" % (za, zb)
            return Tup([BV(w, "(bvmul %s %s)" % (a.t, b.t)),
                        B("(not (= ((_ extract %d %d) %s) (_ bv0 %d)))" % (2 * w - 1, w, full, w))])
        raise MirError("symex: binop %s" % op)

    # -- running
    def run(self, fn, args, path, on_return, depth=0):
        """explore every path of fn from its entry; on_return(ret, path) is called per completed path"""
        if depth > 6:
            raise MirError("symex: closure nesting too deep")
        env = {}
        params = [p.split(":")[0].strip() for p in mir.split_top(fn.params)]
        if len(params) != len(args):
            raise MirError("symex: %s takes %d parameters, %d given" % (fn.name, len(params), len(args)))
        for p, a in zip(params, args):
            env[p] = a
        self._go(fn, env, 0, path, on_return, depth, 0)

    def _go(self, fn, env, bb, path, on_return, depth, nblocks):
        while True:
            nblocks += 1
            if nblocks > self.max_blocks:
                raise MirError("symex: path longer than %d blocks in %s" % (self.max_blocks, fn.name))
            b = fn.blocks.get(bb)
            if b is None:
                raise MirError("symex: no block bb%d in %s" % (bb, fn.name))
            path.trace.append((fn.name, bb))
            for st in b.stmts:
                self.statement(fn, env, st)
            k = b.kind
            if k == "return":
                on_return(env.get("_0", Tup([])), env, path)
                return
            if k == "goto" or k == "drop":
                bb = b.succ[0]
                continue
            if k == "dead" and b.term.startswith("unreachable"):
                # the compiler's own guarantee (e.g. an enum discriminant outside its variants): the path does not exist
                self.assumptions.add("`unreachable` terminators are unreachable (valid enum discriminants)")
                return
            if k == "dead":
                raise MirError("symex: reached %s in %s bb%d" % (b.term, fn.name, bb))
            if k == "assert":
                m = re.match(r"^assert\((!?)(.*?), \"", b.term) or re.match(r"^assert\((!?)(.*?), ", b.term)
                if not m:
                    raise MirError("symex: assert terminator %r" % b.term)
                c = self.operand(env, m.group(2))
                if m.group(1):
                    c = bnot(c)
                cc = c.const()
                if cc is False:
                    path.notes.append("panics at %s bb%d" % (fn.name, bb))
                    return
                if cc is None:
                    path.pc.append(c.t)  # the panicking side is outside the claim
                    self.assumptions.add("arithmetic / bounds assertions in %s hold (the panicking edge is not followed)" % fn.name.split("::")[-1])
                bb = b.succ[0]
                continue
            if k == "switch":
                v = self.operand(env, b.args) if not b.args.startswith("_") else env[b.args]
                targets = b.switch
                outs = self.switch_targets(v, targets)
                if len(outs) == 1:
                    cond, tgt = outs[0]
                    if cond is not None:
                        path.pc.append(cond)
                    bb = tgt
                    continue
                for cond, tgt in outs:
                    self.paths_done += 1
                    if self.paths_done > self.max_paths:
                        raise MirError("symex: more than %d paths" % self.max_paths)
                    p2 = path.clone() if (cond, tgt) != outs[-1] else path
                    e2 = copy.deepcopy(env) if (cond, tgt) != outs[-1] else env
                    if cond is not None:
                        p2.pc.append(cond)
                    self._go(fn, e2, tgt, p2, on_return, depth, nblocks)
                return
            if k == "call":
                args = [self.operand(env, a) for a in mir.split_top(b.args or "")]
                outs = self.call(fn, env, b, args, path, depth)
                if outs is None:  # diverges (panic)
                    path.notes.append("diverging call %s" % b.callee[:60])
                    return
                if not b.succ:
                    return
                if len(outs) == 1:
                    ret, conds = outs[0]
                    path.pc.extend(conds)
                    if b.dest:
                        self.assign(env, b.dest, ret)
                    bb = b.succ[0]
                    continue
                # a forking model: snapshot env *before* any branch mutates it is not possible after the
                # model ran, so forking models must return deep-copyable effects: (ret, conds, patch)
                for i, out in enumerate(outs):
                    ret, conds = out[0], out[1]
                    patch = out[2] if len(out) > 2 else None
                    last = i == len(outs) - 1
                    p2 = path if last else path.clone()
                    e2 = env if last else copy.deepcopy(env)
                    p2.pc.extend(conds)
                    if patch:
                        patch(self, e2)
                    if b.dest:
                        self.assign(e2, b.dest, ret)
                    self._go(fn, e2, b.succ[0], p2, on_return, depth, nblocks)
                return
            raise MirError("symex: terminator kind %s" % k)

    def switch_targets(self, v, targets):
        """-> [(condition term or None, target)]"""
        if isinstance(v, _Discr):
            if v.variant is not None:
                raise MirError("symex: switch on the discriminant of a plain enum")
            c = v.cond.const()
            some_t = [t for val, t in targets if val == "1"]
            none_t = [t for val, t in targets if val == "0"]
            other = [t for val, t in targets if val == "otherwise"]
            st = some_t[0] if some_t else (other[0] if other else None)
            nt = none_t[0] if none_t else (other[0] if other else None)
            if st is None or nt is None:
                raise MirError("symex: two-variant switch without both targets")
            if c is True:
                return [(None, st)]
            if c is False:
                return [(None, nt)]
            return [(v.cond.t, st), ("(not %s)" % v.cond.t, nt)]
        if isinstance(v, B):
            f = [t for val, t in targets if val == "0"]
            tr = [t for val, t in targets if val in ("otherwise", "1")]
            if len(f) != 1 or not tr:
                raise MirError("symex: bool switch shape")
            c = v.const()
            if c is True:
                return [(None, tr[0])]
            if c is False:
                return [(None, f[0])]
            return [(v.t, tr[0]), ("(not %s)" % v.t, f[0])]
        if isinstance(v, BV):
            cv = bv_is_const(v)
            outs, rest = [], []
            for val, t in targets:
                if val == "otherwise":
                    if cv is not None and not any(val2 != "otherwise" and int(val2) == cv for val2, _ in targets):
                        return [(None, t)]
                    outs.append(("(and %s)" % " ".join(rest) if len(rest) > 1 else (rest[0] if rest else "true"), t))
                else:
                    if cv is not None and int(val) == cv:
                        return [(None, t)]
                    outs.append(("(= %s (_ bv%d %d))" % (v.t, int(val), v.w), t))
                    rest.append("(not (= %s (_ bv%d %d)))" % (v.t, int(val), v.w))
            return outs
        raise MirError("symex: switch on %r" % (v,))

    def statement(self, fn, env, st):
        m = re.match(r"^(_\d+) = (.*)$", st)
        if m:
            env[m.group(1)] = self.rvalue(env, m.group(2), fn.locals.get(m.group(1), ""))
            return
        m = re.match(r"^\((_\d+)\.(\d+): [^)]*\) = (.*)$", st)
        if m:
            v = env.get(m.group(1))
            if not isinstance(v, Tup):
                raise MirError("symex: field store into %r" % (v,))
            v.items[int(m.group(2))] = self.rvalue(env, m.group(3), "")
            return
        raise MirError("symex: unsupported statement %r" % st)

    def assign(self, env, dest, v):
        if not re.fullmatch(r"_\d+", dest):
            raise MirError("symex: call destination %r" % dest)
        env[dest] = v

    def call(self, fn, env, b, args, path, depth):
        for r, h in self.models:
            if r.search(b.callee):
                return h(self, env, b, args, path, depth)
        raise MirError("symex: no model for callee %s" % b.callee[:160])

    def call_closure(self, clo, args, path, depth):
        """-> [(ret, [conds])] for each path through the closure body (closures must be pure)"""
        cf = self.by_span.get(clo.span)
        if cf is None:
            raise MirError("symex: closure body %s not found" % clo.span)
        outs = []

        def done(ret, env, p):
            outs.append((ret, p.pc))
        sub = Path()
        # closure's first parameter is the closure itself (by value, & or &mut)
        first = clo if not re.search(r"_1: &", cf.params) else Ref(clo)
        self.run(cf, [first] + list(args), sub, done, depth + 1)
        return outs


class _Downcast:
    def __init__(self, v, variant):
        self.v, self.variant = v, variant

    # reading field .0 of a downcast
    def payload(self, i):
        if isinstance(self.v, Opt):
            if i != 0:
                raise MirError("symex: Option payload field %d" % i)
            return self.v.val
        if isinstance(self.v, Sum2):
            if self.variant == self.v.n0:
                return self.v.p0[i]
            if self.variant == self.v.n1:
                return self.v.p1[i]
            raise MirError("symex: downcast to %s of a %s/%s value" % (self.variant, self.v.n0, self.v.n1))
        if isinstance(self.v, SymEnum):
            return self.v.payloads[self.variant][i]
        if self.v.variant != self.variant:
            raise MirError("symex: downcast to %s of enum value %s" % (self.variant, self.v.variant))
        return self.v.payload[i]


class _Discr:
    def __init__(self, cond, variant=None):
        self.cond, self.variant = cond, variant


# patch Executor.read for downcast fields
_orig_read = Executor.read


def _read(self, env, place):
    if place[0] == "field" and place[1][0] == "downcast":
        d = _orig_read(self, env, place[1])
        return d.payload(place[2])
    return _orig_read(self, env, place)


Executor.read = _read


# ---------------------------------------------------------------------------------------------
# solver batch
# ---------------------------------------------------------------------------------------------

def solve_parallel(decls, queries, solver, timeout=600, procs=8, globals_=(), per_query_ms=30000):
    """split the queries over `procs` solver processes (each incremental) -> same result shape as solve_batch"""
    from concurrent.futures import ThreadPoolExecutor
    chunks = [queries[i::procs] for i in range(procs)]
    chunks = [c for c in chunks if c]
    t0 = time.time()
    with ThreadPoolExecutor(max_workers=len(chunks) or 1) as tp:
        outs = list(tp.map(lambda c: solve_batch(decls, c, solver, timeout, globals_, per_query_ms), chunks))
    res = {}
    for r, dt, raw in outs:
        if r is None:
            return None, time.time() - t0, raw
        res.update(r)
    return res, time.time() - t0, ""


def solve_batch(decls, queries, solver, timeout=600, globals_=(), per_query_ms=30000):
    """queries: [(tag, [assertions])] -> {tag: sat|unsat|unknown}, seconds.  One process, push/pop.
    solvers: cvc5int = cvc5 with the integer encoding of bit-vectors (--solve-bv-as-int=sum; decides the wide
    add / compare chains of this encoding in milliseconds where bit-blasting needs minutes), cvc5 = cvc5
    bit-blasting, z3 = /usr/bin/z3 4.8.12, z3new = z3 5.1.0"""
    lines = ["(set-logic ALL)" if solver == "cvc5int" else "(set-logic QF_BV)"]
    if solver in ("z3", "z3new"):
        lines.append("(set-option :timeout %d)" % per_query_ms)
    for n, s in sorted(decls.items()):
        lines.append("(declare-const %s %s)" % (n, s))
    for g in globals_:
        lines.append("(assert %s)" % g)
    for tag, asserts in queries:
        lines.append("(push 1)")
        for a in asserts:
            lines.append("(assert %s)" % a)
        lines.append("(check-sat)")
        lines.append("(pop 1)")
    text = "\n".join(lines) + "\n"
    cmd = {"z3": ["z3", "-in", "-T:%d" % timeout],
           "z3new": ["z3-new", "-in", "-T:%d" % timeout],
           "cvc5": ["cvc5", "--lang", "smt2", "--incremental", "--tlimit", str(timeout * 1000), "--tlimit-per", str(per_query_ms)],
           "cvc5int": ["cvc5", "--lang", "smt2", "--incremental", "--solve-bv-as-int=sum", "--tlimit", str(timeout * 1000),
                       "--tlimit-per", str(per_query_ms)]}[solver]
    t0 = time.time()
    try:
        p = subprocess.run(cmd, input=text, capture_output=True, text=True, timeout=timeout + 30)
    except subprocess.TimeoutExpired:
        return None, time.time() - t0, "timeout"
    dt = time.time() - t0
    if "(error" in p.stdout or "(error" in p.stderr:
        return None, dt, (p.stdout + p.stderr)[:400]
    res = [l.strip() for l in p.stdout.splitlines() if l.strip() in ("sat", "unsat", "unknown", "timeout")]
    res = ["unknown" if r == "timeout" else r for r in res]
    if len(res) != len(queries):
        return None, dt, "expected %d answers, got %d: %s" % (len(queries), len(res), p.stdout[-300:])
    return {q[0]: r for q, r in zip(queries, res)}, dt, text


def model_of(decls, asserts, want, timeout=120):
    lines = ["(set-logic QF_BV)"]
    for n, s in sorted(decls.items()):
        lines.append("(declare-const %s %s)" % (n, s))
    for a in asserts:
        lines.append("(assert %s)" % a)
    lines.append("(check-sat)")
    lines.append("(get-value (%s))" % " ".join(want))
    p = subprocess.run(["z3-new", "-in", "-T:%d" % timeout], input="\n".join(lines) + "\n", capture_output=True, text=True)
    out = {}
    for m in re.finditer(r"\((\w+) (#x[0-9a-f]+|#b[01]+|true|false|\(_ bv\d+ \d+\))\)", p.stdout):
        v = m.group(2)
        if v.startswith("#x"):
            v = int(v[2:], 16)
        elif v.startswith("#b"):
            v = int(v[2:], 2)
        elif v.startswith("(_ bv"):
            v = int(v.split()[1][2:])
        out[m.group(1)] = v
    return out


# ---------------------------------------------------------------------------------------------
# lazy iterator algebra (pull-based, persistent states): adaptors may call closures that fork
# ---------------------------------------------------------------------------------------------

class It(Obj):
    """base: pull(ex, path, depth) -> [(value | None, next_state, [conds])]"""

    def __init__(self, kind):
        Obj.__init__(self, kind)

    def pull(self, ex, path, depth):
        raise MirError("symex: iterator %s has no pull" % self.kind)


class SliceIt(It):
    def __init__(self, items, pos=0):
        It.__init__(self, "SliceIt")
        self.items, self.pos = list(items), pos

    def pull(self, ex, path, depth):
        if self.pos < len(self.items):
            return [(self.items[self.pos], SliceIt(self.items, self.pos + 1), [])]
        return [(None, self, [])]


def apply_fn(ex, f, args, path, depth):
    """call a closure value or a function item -> [(ret, [conds])]"""
    if isinstance(f, Closure):
        return ex.call_closure(f, args, path, depth)
    if isinstance(f, FnItem):
        class _B:
            pass
        b = _B()
        b.callee, b.args, b.dest, b.idx = f.path, "", None, -1
        outs = ex.call(None, {}, b, args, path, depth)
        if outs is None:
            raise MirError("symex: function item %s diverges" % f.path)
        return [(o[0], o[1]) for o in outs]
    raise MirError("symex: cannot call %r" % (f,))


def as_iter(v):
    if isinstance(v, It):
        return v
    if isinstance(v, Opt):  # Option is IntoIterator
        c = v.cond.const()
        if c is None:
            raise MirError("symex: symbolic Option used as iterator")
        return SliceIt([v.val] if c else [])
    if isinstance(v, Obj) and v.kind == "Vec":
        return SliceIt(v.items)
    raise MirError("symex: %r is not iterable" % (v,))


class MapIt(It):
    def __init__(self, inner, f):
        It.__init__(self, "MapIt")
        self.inner, self.f = inner, f

    def pull(self, ex, path, depth):
        out = []
        for v, st, c in self.inner.pull(ex, path, depth):
            if v is None:
                out.append((None, MapIt(st, self.f), c))
                continue
            for r, c2 in apply_fn(ex, self.f, [v], path, depth):
                out.append((r, MapIt(st, self.f), c + c2))
        return out


class FilterIt(It):
    def __init__(self, inner, f):
        It.__init__(self, "FilterIt")
        self.inner, self.f = inner, f

    def pull(self, ex, path, depth, budget=64):
        if budget <= 0:
            raise MirError("symex: filter does not terminate")
        out = []
        for v, st, c in self.inner.pull(ex, path, depth):
            if v is None:
                out.append((None, FilterIt(st, self.f), c))
                continue
            for r, c2 in apply_fn(ex, self.f, [Ref(v)], path, depth):
                if not isinstance(r, B):
                    raise MirError("symex: filter predicate returned %r" % (r,))
                k = r.const()
                rest = FilterIt(st, self.f)
                if k is not False:
                    out.append((v, rest, c + c2 + ([] if k else [r.t])))
                if k is not True:
                    for v3, st3, c3 in rest.pull(ex, path, depth, budget - 1):
                        out.append((v3, st3, c + c2 + ([] if k is False else ["(not %s)" % r.t]) + c3))
        return out


class FilterMapIt(It):
    def __init__(self, inner, f):
        It.__init__(self, "FilterMapIt")
        self.inner, self.f = inner, f

    def pull(self, ex, path, depth, budget=64):
        if budget <= 0:
            raise MirError("symex: filter_map does not terminate")
        out = []
        for v, st, c in self.inner.pull(ex, path, depth):
            if v is None:
                out.append((None, FilterMapIt(st, self.f), c))
                continue
            for r, c2 in apply_fn(ex, self.f, [v], path, depth):
                if not isinstance(r, Opt):
                    raise MirError("symex: filter_map closure returned %r" % (r,))
                k = r.cond.const()
                rest = FilterMapIt(st, self.f)
                if k is not False:
                    out.append((r.val, rest, c + c2 + ([] if k else [r.cond.t])))
                if k is not True:
                    for v3, st3, c3 in rest.pull(ex, path, depth, budget - 1):
                        out.append((v3, st3, c + c2 + ([] if k is False else ["(not %s)" % r.cond.t]) + c3))
        return out


class FlatMapIt(It):
    def __init__(self, inner, f, cur=None):
        It.__init__(self, "FlatMapIt")
        self.inner, self.f, self.cur = inner, f, cur

    def pull(self, ex, path, depth, budget=64):
        if budget <= 0:
            raise MirError("symex: flat_map does not terminate")
        out = []
        if self.cur is not None:
            for v, st, c in self.cur.pull(ex, path, depth):
                if v is not None:
                    out.append((v, FlatMapIt(self.inner, self.f, st), c))
                else:
                    for v3, st3, c3 in FlatMapIt(self.inner, self.f, None).pull(ex, path, depth, budget - 1):
                        out.append((v3, st3, c + c3))
            return out
        for v, st, c in self.inner.pull(ex, path, depth):
            if v is None:
                out.append((None, FlatMapIt(st, self.f, None), c))
                continue
            for r, c2 in apply_fn(ex, self.f, [v], path, depth):
                for v3, st3, c3 in FlatMapIt(st, self.f, as_iter(r)).pull(ex, path, depth, budget - 1):
                    out.append((v3, st3, c + c2 + c3))
        return out


def drain(ex, it, path, depth, limit=4096):
    """exhaust an iterator -> [([values], [conds])]"""
    out, todo = [], [([], it, [])]
    while todo:
        vals, st, c = todo.pop()
        for v, st2, c2 in st.pull(ex, path, depth):
            if v is None:
                out.append((vals, c + c2))
            else:
                todo.append((vals + [v], st2, c + c2))
        if len(out) + len(todo) > limit:
            raise MirError("symex: iterator drains into more than %d alternatives" % limit)
    return out


def _loc_of(b, i=0):
    m = re.search(r"_\d+", mir.split_top(b.args)[i])
    return m.group(0) if m else None


def _resolve(env, v):
    if isinstance(v, Ref) and isinstance(v.target, tuple):
        return env[v.target[1]], v.target[1]
    if isinstance(v, Ref):
        return v.target, None
    return v, None


def m_iter_next(ex, env, b, a, p, d):
    """<.. as Iterator>::next(&mut it) for It objects held in a local"""
    it, loc = _resolve(env, a[0])
    if not isinstance(it, It) or loc is None:
        raise MirError("symex: next() on %r" % (it,))
    outs = []
    for v, st, c in it.pull(ex, p, d):
        def patch(ex2, env2, st=st, loc=loc):
            env2[loc] = st
        outs.append((Opt(B(v is not None), v), c, patch))
    if len(outs) == 1:  # no fork: apply in place
        outs[0][2](ex, env)
        return [(outs[0][0], outs[0][1])]
    return outs


ITER_MODELS = [
    (r"as Iterator>::flat_map::<", lambda ex, env, b, a, p, d: [(FlatMapIt(as_iter(a[0]), a[1]), [])]),
    (r"as Iterator>::filter_map::<", lambda ex, env, b, a, p, d: [(FilterMapIt(as_iter(a[0]), a[1]), [])]),
    (r"as Iterator>::filter::<", lambda ex, env, b, a, p, d: [(FilterIt(as_iter(a[0]), a[1]), [])]),
    (r"as Iterator>::map::<", lambda ex, env, b, a, p, d: [(MapIt(as_iter(a[0]), a[1]), [])]),
    (r"as IntoIterator>::into_iter$", lambda ex, env, b, a, p, d: [(as_iter(a[0]), [])]),
    (r"^<(FlatMap|FilterMap|Filter|Map|std::slice::Iter|std::vec::IntoIter)<.*> as Iterator>::next$", m_iter_next),
]


def inline_call(ex, fn2, args, path, depth):
    """symbolically execute another (non-closure) function -> [(ret, [conds])]"""
    outs = []
    ex.run(fn2, list(args), Path(), lambda ret, env, p: outs.append((ret, p.pc)), depth + 1)
    return outs


def m_try_branch(ex, env, b, a, p, d):
    r = a[0]
    if isinstance(r, Sum2) and (r.n0, r.n1) == ("Ok", "Err"):
        return [(Sum2(r.c1, "Continue", "Break", r.p0, [Obj("Residual", err=r.p1[0])]), [])]
    if isinstance(r, Opt):  # Option as Try: None breaks
        return [(Sum2(bnot(r.cond), "Continue", "Break", [r.val], [Obj("ResidualNone")]), [])]
    raise MirError("symex: Try::branch of %r" % (r,))


def m_from_residual(ex, env, b, a, p, d):
    r = a[0]
    if isinstance(r, Obj) and r.kind == "ResidualNone":
        return [(Opt(B(False), None), [])]
    return [(Enum("Err", [r]), [])]


TRY_MODELS = [
    (r"^<std::result::Result<.*> as Try>::branch$", m_try_branch),
    (r"^<(std::option::)?Option<.*> as Try>::branch$", m_try_branch),
    (r"as FromResidual<.*>>::from_residual$", m_from_residual),
]


class TakeIt(It):
    def __init__(self, inner, n):
        It.__init__(self, "TakeIt")
        self.inner, self.n = inner, n

    def pull(self, ex, path, depth):
        if self.n <= 0:
            return [(None, self, [])]
        return [(v, TakeIt(st, self.n - 1 if v is not None else 0), c) for v, st, c in self.inner.pull(ex, path, depth)]


class ChainIt(It):
    def __init__(self, a, b):
        It.__init__(self, "ChainIt")
        self.a, self.b = a, b

    def pull(self, ex, path, depth):
        out = []
        if self.a is None:
            return [(v, ChainIt(None, st), c) for v, st, c in self.b.pull(ex, path, depth)]
        for v, st, c in self.a.pull(ex, path, depth):
            if v is not None:
                out.append((v, ChainIt(st, self.b), c))
            else:
                for v2, st2, c2 in self.b.pull(ex, path, depth):
                    out.append((v2, ChainIt(None, st2), c + c2))
        return out


def _const_usize(v):
    if isinstance(v, BV):
        k = bv_is_const(v)
        if k is not None:
            return k
    raise MirError("symex: adaptor argument is not a constant")


def _m_skip(ex, env, b, a, p, d):
    it, n = as_iter(a[0]), _const_usize(a[1])
    alts = [(it, [])]
    for _ in range(n):
        nxt = []
        for st, c in alts:
            for v, st2, c2 in st.pull(ex, p, d):
                nxt.append((st2, c + c2))
        alts = nxt
    if len(alts) != 1:
        raise MirError("symex: skip over a forking iterator")
    return [(alts[0][0], alts[0][1])]


def _m_rev(ex, env, b, a, p, d):
    it = as_iter(a[0])
    if not isinstance(it, SliceIt):
        raise MirError("symex: rev() of a non-slice iterator")
    return [(SliceIt(list(reversed(it.items[it.pos:]))), [])]


ITER_MODELS = [
    (r"as Iterator>::take$", lambda ex, env, b, a, p, d: [(TakeIt(as_iter(a[0]), _const_usize(a[1])), [])]),
    (r"as Iterator>::skip$", _m_skip),
    (r"as Iterator>::rev$", _m_rev),
    (r"as Iterator>::chain::<", lambda ex, env, b, a, p, d: [(ChainIt(as_iter(a[0]), as_iter(a[1])), [])]),
] + ITER_MODELS
ITER_MODELS[-1] = (r"^<(FlatMap|FilterMap|Filter|Map|Take|Skip|Rev|std::iter::Chain|std::iter::Take|std::iter::Rev|std::slice::Iter|std::vec::IntoIter)<.*> as Iterator>::next$", m_iter_next)


def m_int_from(ex, env, b, a, p, d):
    m = re.match(r"^<(u\d+|usize) as From<(u\d+|usize)>>::from$", b.callee)
    return [(ex.int_cast(a[0], INT_W[m.group(1)], False), [])]


def m_sort_by_key_generic(ex, env, b, a, p, d):
    """slice::sort[_unstable]_by_key on a modelled Vec / slice: one successor per permutation, constrained to be sorted"""
    v, loc = _resolve(env, a[0])
    while isinstance(v, Ref):
        v, loc = _resolve(env, v)
    name = _loc_of(b, 0)
    if not (isinstance(v, Obj) and hasattr(v, "items")):
        raise MirError("symex: sort_by_key of %r" % (v,))
    keys = []
    for t in v.items:
        outs = ex.call_closure(a[1], [Ref(t)], p, d)
        if len(outs) != 1 or outs[0][1]:
            raise MirError("symex: sort key closure forks")
        k = outs[0][0]
        if isinstance(k, Enum) and k.variant == "Reverse":
            raise MirError("symex: Reverse keys not supported by the generic sort model")
        if not isinstance(k, BV):
            raise MirError("symex: sort key is not an integer: %r" % (k,))
        keys.append(k)
    n = len(v.items)
    if n <= 1:
        return [(Tup([]), [])]
    stable = "sort_unstable" not in b.callee
    ex.assumptions.add("stub: slice::sort[_unstable]_by_key = the (stable) sort by the closure's key")
    outs = []
    for perm in itertools.permutations(range(n)):
        conds = []
        for x in range(n - 1):
            i, j = perm[x], perm[x + 1]
            conds.append("(%s %s %s)" % ("bvule" if (i < j or not stable) else "bvult", keys[i].t, keys[j].t))

        def patch(ex2, env2, perm=perm, name=name):
            v2 = env2[name]
            while isinstance(v2, Ref):
                v2 = env2[v2.target[1]] if isinstance(v2.target, tuple) else v2.target
            v2.items = [v2.items[k] for k in perm]
        outs.append((Tup([]), conds, patch))
    return outs


COMMON_MODELS = [
    (r"^<(u\d+|usize) as From<(u\d+|usize)>>::from$", m_int_from),
    (r"^(std|core)::slice::<impl \[.*\]>::sort(_unstable)?_by_key::<", m_sort_by_key_generic),
]


def _m_slice_iter(ex, env, b, a, p, d):
    v = a[0]
    while isinstance(v, Ref):
        v = env[v.target[1]] if isinstance(v.target, tuple) else v.target
    if isinstance(v, Obj) and hasattr(v, "items"):
        return [(SliceIt([Ref(x) if isinstance(x, (BV, B)) else x for x in v.items]), [])]
    raise MirError("symex: slice::iter of %r" % (v,))


ITER_MODELS = [(r"^core::slice::<impl \[.*\]>::iter$", _m_slice_iter)] + ITER_MODELS

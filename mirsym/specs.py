"""Event-automaton specifications, one builder per engine-M obligation.

Each builder takes the parsed MIR function list and returns a list of bmc.Automaton objects
(one per analysed function). Selectors are regexes on the MIR header line / callee text with no line
numbers in them; if a selector no longer matches exactly one thing the obligation is reported
inconclusive (MirError), never violated.
"""
import re
import mir
from mir import MirError
from bmc import Automaton, alias_classes, q_chain, RE_LOCAL


# ---------------------------------------------------------------------------------------------
# helpers
# ---------------------------------------------------------------------------------------------

def live_blocks(fn):
    return [b for b in fn.blocks.values() if not b.cleanup]


def calls(fn, callee_re, args_re=None):
    r = re.compile(callee_re)
    ra = re.compile(args_re) if args_re else None
    return [b for b in live_blocks(fn) if b.kind == "call" and r.search(b.callee) and (ra is None or ra.search(b.args or ""))]


def one(lst, what):
    if len(lst) != 1:
        raise MirError("expected exactly one %s, found %d" % (what, len(lst)))
    return lst[0]


def ok_err(fn, b, what):
    c = q_chain(fn, b)
    if c is None:
        raise MirError("result of %s is not propagated with `?`" % what)
    return c


def ok_blocks(fn, bs, what, strict=True):
    out = []
    for b in bs:
        c = q_chain(fn, b)
        if c is None:
            if strict:
                raise MirError("result of %s (bb%d) is not propagated with `?`" % (what, b.idx))
            continue
        out.append(c[0])
    return out


def arg_locals(b):
    return RE_LOCAL.findall(b.args or "")


def closure_fns(fns, b):
    """closure functions whose type appears in the callee's generic args or in the call args"""
    spans = re.findall(r"\{closure@([^}]+)\}", b.callee + " " + (b.args or ""))
    out = []
    for f in fns:
        sp = f.closure_span()
        if sp and sp in spans:
            out.append(f)
    return out


def fn_calls_matching(fns, f, callee_re, depth=2):
    """does f (or a closure it creates, up to depth) contain a call matching callee_re?"""
    r = re.compile(callee_re)
    for b in live_blocks(f):
        if b.kind == "call":
            if r.search(b.callee):
                return True
            if depth > 0:
                for cf in closure_fns(fns, b):
                    if cf is not f and fn_calls_matching(fns, cf, callee_re, depth - 1):
                        return True
    return False


def ret_blocks(fn):
    """(ok_blocks, err_blocks): blocks that set the return place to Ok(..) / to an error"""
    ok, err = set(), set()
    for b in live_blocks(fn):
        for s in b.stmts:
            if re.match(r"^_0 = (std::result::)?Result::<.*>::Ok\(", s):
                ok.add(b.idx)
            if re.match(r"^_0 = (std::result::)?Result::<.*>::Err\(", s):
                err.add(b.idx)
        if b.kind == "call" and b.dest == "_0":
            if "FromResidual" in b.callee:
                # lands in succ; mark the call block itself
                err.add(b.idx)
    return ok, err


def same_class(uf, a, b):
    return uf.find(a) == uf.find(b)


def blocks_using(fn, uf, root, exclude_re=None):
    """call blocks taking an argument in root's alias class"""
    ex = re.compile(exclude_re) if exclude_re else None
    out = []
    for b in live_blocks(fn):
        if b.kind != "call":
            continue
        if ex and ex.search(b.callee):
            continue
        if any(same_class(uf, a, root) for a in arg_locals(b)):
            out.append(b)
    return out


PURE = (r"(as Try>::branch|FromResidual|BufWriter::<.*>::new|ChecksummedWriter::<.*>::new|::from_writer|::checksum$|"
        r"::inner_mut|::get_mut|::as_file_mut|::as_file$|as Deref>::deref|as DerefMut>::deref_mut|::metadata|::is_dir|"
        r"Metadata::|::len$|::path$|::display|Argument::|::as_ref|::as_path|::parent|::join|::expect|::unwrap|::map_err|::inspect_err|"
        r"log::|::clone$|::elapsed|::to_string)")


# ---------------------------------------------------------------------------------------------
# C05 / C16 / C04: persist_version, rewrite_atomic
# ---------------------------------------------------------------------------------------------

def persist_version(fns):
    fn = mir.find(fns, r"^fn persist_version\(")
    uf = alias_classes(fn)
    a = Automaton(fn, "O5.1a persist_version: version file complete + durable before `current` is switched")
    def opens_file(cf):
        return fn_calls_matching(fns, cf, r"File::create", 0) or fn_calls_matching(fns, cf, r"OpenOptions::open", 0)
    create = one([b for b in calls(fn, r"retry_transient_io::<") if any(opens_file(cf) for cf in closure_fns(fns, b))],
                 "creation of the version file via retry_transient_io")
    # a leftover of a failed attempt (possibly longer) must be replaced: File::create truncates;
    # OpenOptions must say truncate(true)
    truncating = False
    for cf in closure_fns(fns, create):
        if fn_calls_matching(fns, cf, r"File::create", 0):
            truncating = True
        for bb in live_blocks(cf):
            if bb.kind == "call" and re.search(r"OpenOptions::truncate$", bb.callee) and re.search(r"const true$", bb.args or ""):
                truncating = True
    cok, cerr, _ = ok_err(fn, create, "File::create")
    file_root = create.dest
    syncs = [b for b in calls(fn, r"^File::sync_all$") if any(same_class(uf, x, file_root) for x in arg_locals(b))]
    dirs = [b for b in calls(fn, r"(^|::)fsync_directory$") if "_1" in arg_locals(b)]
    publish = one(calls(fn, r"(^|::)rewrite_atomic$"), "rewrite_atomic call")
    pok, perr, _ = ok_err(fn, publish, "rewrite_atomic")
    writes = [b for b in blocks_using(fn, uf, file_root, PURE + r"|File::sync_all|retry_transient_io") if b is not create]
    ok_ret, err_ret = ret_blocks(fn)
    a.var("created").var("dirty").var("synced").var("dir").var("published")
    a.event("ok:create", [cok]).on("ok:create", "created", True).on("ok:create", "dir", False)
    a.event("write", [b.idx for b in writes]).on("write", "dirty", True).on("write", "synced", False)
    a.event("ok:sync_all(v)", ok_blocks(fn, syncs, "File::sync_all")).on("ok:sync_all(v)", "dirty", False).on("ok:sync_all(v)", "synced", True)
    a.event("ok:fsync_directory", ok_blocks(fn, dirs, "fsync_directory")).on("ok:fsync_directory", "dir", True)
    a.event("call:rewrite_atomic(current)", [publish.idx])
    a.event("ok:rewrite_atomic", [pok]).on("ok:rewrite_atomic", "published", True)
    a.event("ret_ok", ok_ret)
    a.event("call:create version file WITHOUT truncation", [] if truncating else [create.idx])
    a.require("call:create version file WITHOUT truncation", "false", "the version file is opened without truncation: a longer file left behind by a failed attempt keeps its stale tail and the version can never be recovered again")
    a.require("write", "{created}", "version file written before it was (successfully) created")
    a.require("call:rewrite_atomic(current)", "(and {created} {synced} (not {dirty}) {dir})",
              "`current` is switched before the version file is written, fsynced and its directory entry fsynced")
    a.require("ret_ok", "{published}", "persist_version returns Ok without having switched `current`")
    # NOTE: a missing fsync / directory fsync is a *violation* (the requirement at the rename fails on every
    # path), not an encoder problem; only the anchors (create, writes, rewrite_atomic) must be found.
    if not writes:
        raise MirError("persist_version: no write to the version file found")
    return [a]


def rewrite_atomic(fns):
    fn = mir.find(fns, r"^fn rewrite_atomic\(")
    uf = alias_classes(fn)
    a = Automaton(fn, "O5.1b rewrite_atomic: temp file complete + fsynced before rename; rename durable before Ok")
    new = one(calls(fn, r"NamedTempFile::new_in"), "NamedTempFile::new_in")
    nok, nerr, _ = ok_err(fn, new, "NamedTempFile::new_in")
    tmp = new.dest
    rename = one(calls(fn, r"(^|::)persist_temp_file$"), "persist_temp_file")
    rok, rerr, _ = ok_err(fn, rename, "persist_temp_file")
    opens = calls(fn, r"^File::open")
    file2_roots = [b.dest for b in opens]
    syncs = calls(fn, r"^File::sync_all$")
    tmp_syncs = [b for b in syncs if any(same_class(uf, x, tmp) for x in arg_locals(b))]
    cur_syncs = [b for b in syncs if any(same_class(uf, x, r) for x in arg_locals(b) for r in file2_roots)]
    dirs = calls(fn, r"(^|::)fsync_directory$")
    writes = [b for b in blocks_using(fn, uf, tmp, PURE + r"|File::sync_all|persist_temp_file|NamedTempFile::new_in")]
    ok_ret, _ = ret_blocks(fn)
    # missing fsyncs are violations (requirements fail), not encoder problems; the writes are an anchor
    if not writes:
        raise MirError("rewrite_atomic: no write to the temp file found")
    a.var("tmp").var("dirty").var("tmp_synced").var("renamed").var("cur_synced").var("dir_synced")
    a.event("ok:new_in", [nok]).on("ok:new_in", "tmp", True)
    a.event("write(tmp)", [b.idx for b in writes]).on("write(tmp)", "dirty", True).on("write(tmp)", "tmp_synced", False)
    a.event("ok:sync_all(tmp)", ok_blocks(fn, tmp_syncs, "sync_all(tmp)")).on("ok:sync_all(tmp)", "dirty", False).on("ok:sync_all(tmp)", "tmp_synced", True)
    a.event("call:rename", [rename.idx])
    a.event("ok:rename", [rok]).on("ok:rename", "renamed", True)
    a.event("ok:sync_all(file)", ok_blocks(fn, cur_syncs, "sync_all(file)")).on("ok:sync_all(file)", "cur_synced", True)
    a.event("ok:fsync_directory", ok_blocks(fn, dirs, "fsync_directory")).on("ok:fsync_directory", "dir_synced", True)
    a.on("call:rename", "dir_synced", False)
    a.event("ret_ok", ok_ret)
    a.require("call:rename", "(and {tmp} {tmp_synced} (not {dirty}))", "temp file renamed over the target before its content was written and fsynced")
    a.require("ret_ok", "(and {renamed} {dir_synced})", "rewrite_atomic returns Ok before the rename is durable (directory fsync after rename)")
    return [a]



# ---------------------------------------------------------------------------------------------
# C05 O5.2: a writer hands out an id / handle only after file fsync + directory fsync
# ---------------------------------------------------------------------------------------------

def _writer_finish(fns, sel, title, some_re, need_dir=True):
    fn = mir.find(fns, sel)
    a = Automaton(fn, title)
    syncs = calls(fn, r"^File::sync_all$")
    dirs = calls(fn, r"(^|::)fsync_directory$")
    ok_ret, _ = ret_blocks(fn)
    # returns that hand out a result (Ok(Some(..)) / Ok((meta, checksum))) as opposed to Ok(None)
    handing = set()
    for b in live_blocks(fn):
        for st in b.stmts:
            if re.match(r"^_0 = (std::result::)?Result::<.*>::Ok\(", st) and some_re.search(" ".join(b.stmts)):
                handing.add(b.idx)
    if not handing:
        raise MirError("no result-bearing Ok return found in " + fn.name)
    a.var("synced").var("dir")
    a.event("ok:sync_all(file)", ok_blocks(fn, syncs, "File::sync_all")).on("ok:sync_all(file)", "synced", True)
    a.event("ok:fsync_directory", ok_blocks(fn, dirs, "fsync_directory", strict=False)).on("ok:fsync_directory", "dir", True)
    a.event("ret_ok(id)", handing)
    a.require("ret_ok(id)", "{synced}", "file id / handle returned before the file was fsynced")
    if need_dir:
        a.require("ret_ok(id)", "{dir}", "file id / handle returned before the file's directory entry was fsynced")
    return a


def table_writer_finish(fns):
    return [_writer_finish(fns, r"table/writer/mod\.rs[^>]*>::finish\(_1: table::writer::Writer\)",
                           "O5.2a table::Writer::finish: id returned only after sync_all + fsync_directory",
                           re.compile(r"Option::<.*>::Some\("))]


def blob_writer_finish(fns):
    # the blob file becomes nameable through MultiWriter::consume_writer, which calls Writer::finish
    out = []
    fw = mir.find(fns, r"blob_file/writer\.rs[^>]*>::finish\(_1: blob_file::writer::Writer\)")
    cw = mir.find(fns, r"blob_file/multi_writer\.rs[^>]*>::consume_writer\(")
    # directory fsync may live in either of the two functions
    dir_in_finish = bool(calls(fw, r"(^|::)fsync_directory$"))
    a = _writer_finish(fns, r"blob_file/writer\.rs[^>]*>::finish\(_1: blob_file::writer::Writer\)",
                       "O5.2b blob_file::Writer::finish: metadata returned only after sync_all%s" % (" + fsync_directory" if dir_in_finish else ""),
                       re.compile(r"."), need_dir=dir_in_finish)
    out.append(a)
    b = Automaton(cw, "O5.2c blob MultiWriter::consume_writer: BlobFile handed out only after Writer::finish succeeded and the blobs/ directory entry is durable")
    fin = one(calls(cw, r"writer::Writer::finish$|blob_file::writer::Writer::finish$|Writer::finish$"), "Writer::finish call")
    fok, ferr, _ = ok_err(cw, fin, "Writer::finish")
    dirs = calls(cw, r"(^|::)fsync_directory$")
    handing = set()
    for blk in live_blocks(cw):
        if any(re.match(r"^_0 = (std::result::)?Result::<.*>::Ok\(", st) for st in blk.stmts) and any("Option::<BlobFile>::Some(" in st or "Some(" in st for st in blk.stmts):
            handing.add(blk.idx)
    if not handing:
        raise MirError("consume_writer: no Ok(Some(blob_file)) return found")
    b.var("finished").var("dir", init=dir_in_finish)
    b.event("ok:Writer::finish", [fok]).on("ok:Writer::finish", "finished", True)
    b.event("ok:fsync_directory", ok_blocks(cw, dirs, "fsync_directory", strict=False)).on("ok:fsync_directory", "dir", True)
    b.event("ret_ok(blob file)", handing)
    b.require("ret_ok(blob file)", "{finished}", "blob file handed out before its writer finished")
    b.require("ret_ok(blob file)", "{dir}", "blob file handed out although the blobs/ directory was never fsynced after the file was created (neither in Writer::finish nor here): a crash can lose the directory entry of a blob file that a durable version names")
    out.append(b)
    return out


# ---------------------------------------------------------------------------------------------
# upgrade_version_with_seqno: persist, then extend history, then raise visible seqno; Err => nothing
# ---------------------------------------------------------------------------------------------

def upgrade_version(fns):
    fn = mir.find(fns, r"super_version\.rs[^>]*>::upgrade_version_with_seqno\(")
    a = Automaton(fn, "O16.1b upgrade_version_with_seqno: history extended only after the version is persisted; nothing changed on Err")
    tr = one(calls(fn, r"as FnOnce<\(&SuperVersion,\)>>::call_once"), "transformer call")
    tok, terr, _ = ok_err(fn, tr, "transformer")
    pv = one(calls(fn, r"(^|::)persist_version$"), "persist_version call")
    pok, perr, _ = ok_err(fn, pv, "persist_version")
    ap = one(calls(fn, r"SuperVersions::append_version$"), "append_version call")
    fm = one(calls(fn, r"SequenceNumberCounter::fetch_max$"), "visible_seqno.fetch_max call")
    ok_ret, err_ret = ret_blocks(fn)
    a.var("transformed").var("persisted").var("appended").var("bumped")
    a.event("ok:transform", [tok]).on("ok:transform", "transformed", True)
    a.event("call:persist_version", [pv.idx])
    a.event("ok:persist_version", [pok]).on("ok:persist_version", "persisted", True)
    a.event("call:append_version", [ap.idx]).on("call:append_version", "appended", True)
    a.event("call:visible_seqno.fetch_max", [fm.idx]).on("call:visible_seqno.fetch_max", "bumped", True)
    a.event("ret_ok", ok_ret).event("ret_err", err_ret)
    a.require("call:persist_version", "{transformed}", "persisting before the transformer succeeded")
    a.require("call:append_version", "{persisted}", "in-memory history extended before the version file and `current` were written")
    a.require("call:visible_seqno.fetch_max", "{appended}", "visible seqno raised before the version was installed")
    a.require("ret_ok", "(and {appended} {bumped})", "Ok returned without installing the version / raising the visible seqno")
    a.require("ret_err", "(and (not {appended}) (not {bumped}))", "Err returned although the history or the visible seqno was changed")
    # the seqno stored in the new entry and given to fetch_max is parameter _4
    # (`next_version.seqno = seqno`): a statement assigning (_x.3: u64) = copy _4
    if not any(re.search(r"\.\d+: u64\) = copy _4$", st) for b in live_blocks(fn) for st in b.stmts):
        raise MirError("upgrade_version_with_seqno: assignment `next_version.seqno = seqno` not found")
    return [a]


# ---------------------------------------------------------------------------------------------
# publish-then-delete (C05 O5.3, C20 O20.3) and error exits (C16 O16.4)
# ---------------------------------------------------------------------------------------------

DELETE = r"(Table::mark_as_deleted$|BlobFile::mark_as_deleted$|(^|::)remove_file(::<|$))"
PUBLISH = r"SuperVersions::upgrade_version(_with_seqno)?::<"


def _publish_then_delete(fns, sel, title, err_must_be_clean):
    fn = mir.find(fns, sel)
    a = Automaton(fn, title)
    pub = calls(fn, PUBLISH)
    if len(pub) != 1:
        raise MirError("expected one upgrade_version call in %s, found %d" % (fn.name, len(pub)))
    pok, perr, _ = ok_err(fn, pub[0], "upgrade_version")
    dels = calls(fn, DELETE)
    ok_ret, err_ret = ret_blocks(fn)
    # a mark_as_deleted inside the closure handed to upgrade_version runs *before* the version is persisted
    early_marks = []
    for cf in closure_fns(fns, pub[0]):
        if fn_calls_matching(fns, cf, r"(Table|BlobFile)::mark_as_deleted$", 1) or \
                any("mark_as_deleted" in st or (bb.kind == "call" and "mark_as_deleted" in (bb.args or "")) for bb in live_blocks(cf) for st in (bb.stmts or [""])):
            early_marks.append(cf)
    a.var("published")
    a.event("call:upgrade_version(closure flags files for deletion)", [pub[0].idx] if early_marks else [])
    a.require("call:upgrade_version(closure flags files for deletion)", "false", "tables / blob files are marked deleted inside the closure that builds the next version, i.e. before that version is persisted: if persisting fails the operation returns Err but the files of the still-current version are unlinked when the tree is closed")
    a.event("call:upgrade_version", [pub[0].idx])
    a.event("ok:upgrade_version", [pok]).on("ok:upgrade_version", "published", True)
    a.event("call:mark_as_deleted", [b.idx for b in dels])
    a.event("ret_ok", ok_ret).event("ret_err", err_ret)
    a.require("call:mark_as_deleted", "{published}", "a table / blob file is marked deleted before the version without it was published")
    if err_must_be_clean:
        a.require("ret_err", "(not {published})", "the operation returns Err although its version change was already published (readers see the change, the caller is told it failed)")
    return a, dels


def standard_finish(fns):
    a, dels = _publish_then_delete(fns, r"flavour\.rs[^>]*>::finish\(_1: Box<StandardCompaction>",
                                   "O5.3a StandardCompaction::finish: obsolete tables marked deleted only after the new version is published", False)
    if not dels and not a.events.get("call:upgrade_version(closure flags files for deletion)"):
        raise MirError("StandardCompaction::finish: no mark_as_deleted call found")
    return [a]


def relocating_finish(fns):
    a, dels = _publish_then_delete(fns, r"flavour\.rs[^>]*>::finish\(_1: Box<RelocatingCompaction>",
                                   "O5.3b RelocatingCompaction::finish: obsolete tables / blob files marked deleted only after publish", False)
    if not dels and not a.events.get("call:upgrade_version(closure flags files for deletion)"):
        raise MirError("RelocatingCompaction::finish: no mark_as_deleted call found")
    return [a]


def drop_tables(fns):
    a, dels = _publish_then_delete(fns, r"^fn drop_tables\(",
                                   "O5.3c drop_tables: tables / blob files marked deleted only after the version without them is published", False)
    if not dels and not a.events.get("call:upgrade_version(closure flags files for deletion)"):
        raise MirError("drop_tables: no mark_as_deleted call found")
    return [a]


def drop_tables_err_clean(fns):
    a, dels = _publish_then_delete(fns, r"^fn drop_tables\(",
                                   "O16.4a drop_tables: an Err return means nothing was published (a drop changes what readers see)", True)
    return [a]


def move_tables(fns):
    fn = mir.find(fns, r"^fn move_tables\(")
    a = Automaton(fn, "O16.4b move_tables: Ok only after the moved version is published; nothing deleted")
    pub = one(calls(fn, PUBLISH), "upgrade_version call")
    pok, perr, _ = ok_err(fn, pub, "upgrade_version")
    ok_ret, err_ret = ret_blocks(fn)
    decl = calls(fn, r"HiddenSet::should_decline_compaction")
    a.var("published").var("declined_possible")
    a.event("ok:upgrade_version", [pok]).on("ok:upgrade_version", "published", True)
    a.event("call:delete", [b.idx for b in calls(fn, DELETE)])
    a.require("call:delete", "false", "a move must not delete any file")
    return [a]


def ingestion_finish(fns):
    out = []
    for sel, nm in ((r"src/tree/ingest\.rs[^>]*>::finish\(_1: Ingestion", "Ingestion::finish"),
                    (r"src/blob_tree/ingest\.rs[^>]*>::finish\(_1: BlobIngestion", "BlobIngestion::finish")):
        fn = mir.find(fns, sel)
        a = Automaton(fn, "O14.2 %s: flush under the flush lock, then one seqno for tables and version; Err => nothing published" % nm)
        lock = one(calls(fn, r"get_flush_lock$"), "get_flush_lock")
        flush = one(calls(fn, r"AbstractTree>::flush$|::flush$", None), "flush call") if len(calls(fn, r"AbstractTree>::flush$")) == 1 else one(calls(fn, r"AbstractTree>::flush$"), "flush call")
        fok, ferr, _ = ok_err(fn, flush, "flush")
        nxt = [b for b in calls(fn, r"SequenceNumberCounter::next$")]
        pub = one(calls(fn, r"SuperVersions::upgrade_version_with_seqno::<"), "upgrade_version_with_seqno")
        pok, perr, _ = ok_err(fn, pub, "upgrade_version_with_seqno")
        # which next() feeds the 4th argument of upgrade_version_with_seqno?
        args = [x.strip() for x in mir.split_top(pub.args)]
        if len(args) < 4:
            raise MirError("upgrade_version_with_seqno: unexpected argument list")
        seq_local = RE_LOCAL.search(args[3]).group(0)
        seq_call = [b for b in nxt if b.dest == seq_local]
        if len(seq_call) != 1:
            raise MirError("%s: the seqno passed to upgrade_version_with_seqno is not the direct result of one SequenceNumberCounter::next call" % nm)
        # The same local must reach Table::recover as `global_seqno`. rustc's MIR printer zips closure
        # upvar names with operands and may hide operands, so the capture is established structurally:
        #  (i)  in the block that builds the Table::recover closure a `&u64` temporary is taken of exactly
        #       this local and is used nowhere else in the function (only the aggregate can consume it);
        #  (ii) the closure body has exactly one captured `&u64` field and Table::recover's 3rd argument
        #       is a copy of its pointee.
        ok_capture = False
        for b in live_blocks(fn):
            spans = [m.group(1) for st in b.stmts for m in [re.match(r"^_\d+ = \{closure@([^}]+)\} \{", st)] if m]
            if not spans:
                continue
            refs = [m.group(1) for st in b.stmts for m in [re.match(r"^(_\d+) = &" + seq_local + r"$", st)] if m]
            refs = [r for r in refs if fn.locals.get(r, "").strip() == "&u64"]
            if len(refs) != 1:
                continue
            uses = 0
            for bb in live_blocks(fn):
                for st in bb.stmts:
                    if re.search(r"\b" + refs[0] + r"\b", st) and not st.startswith(refs[0] + " = ") \
                            and not re.match(r"^_\d+ = \{closure@", st):
                        uses += 1
                if bb.term and re.search(r"\b" + refs[0] + r"\b", bb.term):
                    uses += 1
            if uses != 0:
                continue
            for cf in fns:
                if cf.closure_span() in spans and not getattr(cf, "skip", False):
                    rec = [x for x in live_blocks(cf) if x.kind == "call" and re.search(r"Table::recover$", x.callee)]
                    if len(rec) != 1:
                        continue
                    fields = set()
                    for bb in live_blocks(cf):
                        for st in bb.stmts:
                            for m in re.finditer(r"\(\(\*_1\)\.(\d+): &u64\)", st):
                                fields.add(m.group(1))
                    a3 = [x.strip() for x in mir.split_top(rec[0].args)][2]
                    l3 = RE_LOCAL.search(a3).group(0)
                    d3 = [st for bb in live_blocks(cf) for st in bb.stmts if st.startswith(l3 + " = ")]
                    if len(fields) == 1 and len(d3) == 1:
                        m = re.match(r"^_\d+ = copy \(\*(_\d+)\)$", d3[0])
                        if m:
                            d4 = [st for bb in live_blocks(cf) for st in bb.stmts if st.startswith(m.group(1) + " = ")]
                            if len(d4) == 1 and re.search(r"\(\(\*_1\)\.\d+: &u64\)", d4[0]):
                                ok_capture = True
        if not ok_capture:
            raise MirError("%s: could not establish that Table::recover receives the seqno passed to upgrade_version_with_seqno" % nm)
        drops = [b for b in live_blocks(fn) if b.kind == "drop" and RE_LOCAL.fullmatch(b.args or "") and b.args == lock.dest]
        ok_ret, err_ret = ret_blocks(fn)
        a.var("locked").var("flushed").var("seq").var("published")
        a.event("call:get_flush_lock", [lock.idx]).on("call:get_flush_lock", "locked", True)
        a.event("drop(flush_lock)", [b.idx for b in drops]).on("drop(flush_lock)", "locked", False)
        a.event("ok:flush", [fok]).on("ok:flush", "flushed", True)
        a.event("call:seqno.next", [seq_call[0].idx]).on("call:seqno.next", "seq", True)
        a.event("call:upgrade_version_with_seqno", [pub.idx])
        a.event("ok:upgrade_version_with_seqno", [pok]).on("ok:upgrade_version_with_seqno", "published", True)
        a.event("ret_err", err_ret)
        a.require("call:seqno.next", "(and {locked} {flushed})", "the ingestion seqno is drawn before the memtables were flushed under the flush lock")
        a.require("call:upgrade_version_with_seqno", "(and {locked} {seq})", "version registered outside the flush lock / before the seqno was drawn")
        a.require("ret_err", "(not {published})", "ingestion returns Err although its tables were already published")
        out.append(a)
    return out


# ---------------------------------------------------------------------------------------------
# C16 O16.2: merge_tables hides, and shows again on every exit
# ---------------------------------------------------------------------------------------------

def merge_tables_hidden(fns):
    fn = mir.find(fns, r"^fn merge_tables\(")
    hg = mir.find(fns, r"^fn hidden_guard\(")
    if not fn_calls_matching(fns, hg, r"HiddenSet::show"):
        raise MirError("hidden_guard no longer shows the tables in its error closure")
    # hidden_guard: the show happens inside inspect_err of f()'s result, and that result is what is returned
    a = Automaton(fn, "O16.2 merge_tables: tables hidden for the merge are shown again on every exit, and not before the commit")
    hide = one(calls(fn, r"HiddenSet::hide::<"), "HiddenSet::hide")
    shows = calls(fn, r"HiddenSet::show::<")
    guard = one(calls(fn, r"(^|::)hidden_guard::<"), "hidden_guard call")
    gok, gerr, _ = ok_err(fn, guard, "hidden_guard")
    err_shows = [gerr]
    for b in live_blocks(fn):
        c = q_chain(fn, b)
        if c and b.kind == "call":
            ok, err, passed = c
            for ptxt in passed:
                if "inspect_err" in ptxt:
                    spans = re.findall(r"\{closure@([^}]+)\}", ptxt)
                    for cf in fns:
                        if cf.closure_span() in spans and fn_calls_matching(fns, cf, r"HiddenSet::show", 0):
                            err_shows.append(err)
    commit = one(calls(fn, r"CompactionFlavour>::finish$"), "compactor.finish call")
    cok, cerr, _ = ok_err(fn, commit, "compactor.finish")
    rets = [b.idx for b in live_blocks(fn) if b.kind == "return"]
    ok_ret, err_ret = ret_blocks(fn)
    a.var("hidden").var("committed")
    a.event("call:hide", [hide.idx]).on("call:hide", "hidden", True)
    a.event("call:show", [b.idx for b in shows]).on("call:show", "hidden", False)
    a.event("err:show_on_err", err_shows).on("err:show_on_err", "hidden", False)
    a.event("call:compactor.finish", [commit.idx])
    a.event("ok:compactor.finish", [cok]).on("ok:compactor.finish", "committed", True)
    a.event("ret_ok", ok_ret).event("ret_err", err_ret)
    a.require("ret_err", "(not {hidden})", "merge_tables returns Err and leaves its input tables hidden (they can never be compacted again)")
    a.require("ret_ok", "(not {hidden})", "merge_tables returns Ok and leaves its input tables hidden")
    a.require("call:compactor.finish", "{hidden}", "tables shown again before the merge result is committed")
    return [a]


# ---------------------------------------------------------------------------------------------
# C04/C20 O20.3: recovery deletes orphans only after the recovered version is fully loaded
# ---------------------------------------------------------------------------------------------

def recover_levels(fns):
    fn = mir.find(fns, r"src/tree/mod\.rs[^>]*>::recover_levels\(")
    a = Automaton(fn, "O20.3 recover_levels: orphaned files are removed only after Version::from_recovery succeeded")
    fr = one(calls(fn, r"Version::from_recovery$"), "Version::from_recovery call")
    fok, ferr, _ = ok_err(fn, fr, "Version::from_recovery")
    rms = calls(fn, r"(^|::)remove_file(::<|$)")
    if not rms:
        raise MirError("recover_levels: no remove_file call found")
    ok_ret, err_ret = ret_blocks(fn)
    a.var("loaded")
    a.event("ok:from_recovery", [fok]).on("ok:from_recovery", "loaded", True)
    a.event("call:remove_file", [b.idx for b in rms])
    a.event("ret_ok", ok_ret)
    a.require("call:remove_file", "{loaded}", "a file is deleted during recovery before the version that decides what is an orphan was fully loaded")
    a.require("ret_ok", "{loaded}", "recover_levels returns Ok without a loaded version")
    return [a]



# ---------------------------------------------------------------------------------------------
# C02 / C08 O2.6: reads use the super version the snapshot resolves to (and its blob files)
# ---------------------------------------------------------------------------------------------

def _pinning(fns, sel, title, consumers):
    """consumers: [(callee regex, index of the version argument, index of the seqno argument or None)]"""
    fn = mir.find(fns, sel)
    uf = alias_classes(fn)
    a = Automaton(fn, title)
    seq_param = fn.debug.get("seqno")
    if not seq_param or not RE_LOCAL.fullmatch(seq_param):
        raise MirError("no `seqno` parameter in " + fn.name)
    snaps = calls(fn, r"get_version_for_snapshot$")
    if len(snaps) != 1:
        raise MirError("expected one get_version_for_snapshot call in %s, found %d" % (fn.name, len(snaps)))
    snap = snaps[0]
    sargs = [x.strip() for x in mir.split_top(snap.args)]
    snap_seq_ok = len(sargs) >= 2 and RE_LOCAL.search(sargs[-1]) and same_class(uf, RE_LOCAL.search(sargs[-1]).group(0), seq_param)
    good, bad = [], []
    found = 0
    for cre, vi, si in consumers:
        for b in calls(fn, cre):
            found += 1
            args = [x.strip() for x in mir.split_top(b.args)]
            vloc = RE_LOCAL.search(args[vi])
            ok = vloc is not None and same_class(uf, vloc.group(0), snap.dest)
            if si is not None:
                sloc = RE_LOCAL.search(args[si])
                ok = ok and sloc is not None and same_class(uf, sloc.group(0), seq_param)
            (good if ok else bad).append(b.idx)
    if found == 0:
        raise MirError("no version-consuming call found in " + fn.name)
    a.var("snap")
    a.event("call:get_version_for_snapshot(seqno)" if snap_seq_ok else "call:get_version_for_snapshot(OTHER SEQNO)", [snap.idx])
    a.on("call:get_version_for_snapshot(seqno)", "snap", True)
    a.event("call:read(pinned version)", good)
    a.event("call:read(FOREIGN version)", bad)
    a.require("call:read(pinned version)", "{snap}", "a read consumes a version before the snapshot was resolved with the caller's seqno")
    a.require("call:read(FOREIGN version)", "false", "a read consumes a version / seqno that does not come from get_version_for_snapshot(seqno): the snapshot is not pinned")
    return a


def snapshot_pinning(fns):
    out = []
    out.append(_pinning(fns, r"src/tree/mod\.rs[^>]*>::get_internal_entry\(", "O2.6a Tree::get_internal_entry reads from the super version of its snapshot",
                        [(r"get_internal_entry_from_version$", 0, 2)]))
    out.append(_pinning(fns, r"src/tree/mod\.rs[^>]*>::create_range(::<[^(]*)?\(", "O2.6b Tree::create_range scans the super version of its snapshot",
                        [(r"create_internal_range::<", 0, 2)]))
    out.append(_pinning(fns, r"src/blob_tree/mod\.rs[^>]*>::get(::<[^(]*)?\(_1: &BlobTree", "O2.6c BlobTree::get looks up and resolves blob pointers in the super version of its snapshot",
                        [(r"get_internal_entry_from_version$", 0, 2), (r"(^|::)resolve_value_handle$", 3, None)]))
    # BlobTree::range: the scan and the Guard's version both come from the snapshot
    fn = mir.find(fns, r"src/blob_tree/mod\.rs[^>]*>::range(::<[^(]*)?\(_1: &BlobTree")
    a = _pinning(fns, r"src/blob_tree/mod\.rs[^>]*>::range(::<[^(]*)?\(_1: &BlobTree", "O2.6d BlobTree::range scans, and later resolves blob pointers in, the super version of its snapshot",
                 [(r"create_internal_range::<", 0, 2)])
    uf = alias_classes(fn)
    snap = one(calls(fn, r"get_version_for_snapshot$"), "get_version_for_snapshot")
    # the closure that builds `Guard { tree, version, kv }` captures the snapshot's super version
    cap_ok = False
    guard_closures = [cf for cf in fns if cf.closure_span() and not getattr(cf, "skip", False) and
                      re.search(r"blob_tree/mod\.rs", cf.closure_span() or "") and
                      any(re.search(r"= (blob_tree::)?Guard \{", st) for b in live_blocks(cf) for st in b.stmts)]
    for b in live_blocks(fn):
        for st in b.stmts:
            m = re.match(r"^_\d+ = \{closure@([^}]+)\} \{(.*)\}$", st)
            if m and any(cf.closure_span() == m.group(1) for cf in guard_closures):
                ops = RE_LOCAL.findall(m.group(2))
                if any(same_class(uf, o, snap.dest) for o in ops):
                    cap_ok = True
    if not guard_closures:
        raise MirError("BlobTree::range: closure building the Guard not found")
    for cf in guard_closures:
        # inside the closure: Guard.version is a clone of the captured super version's `version` field
        ok_in = False
        for b in live_blocks(cf):
            if b.kind == "call" and re.search(r"Version as Clone>::clone$", b.callee):
                ok_in = True
        if not ok_in:
            raise MirError("BlobTree::range closure: Guard.version is not a clone of a captured version")
    a.event("stmt:Guard built from FOREIGN version", [] if cap_ok else [snap.idx])
    a.require("stmt:Guard built from FOREIGN version", "false", "the iterator guard resolves blob pointers in a version that is not the snapshot's")
    out.append(a)
    return out



# ---------------------------------------------------------------------------------------------
# C10 O10.6b: recover() trusts the version file only after verifying it against `current`
# ---------------------------------------------------------------------------------------------

def recover_verifies(fns):
    fn = mir.find(fns, r"^fn (version::)?recovery::recover\(|^fn recover\(_1: &Path\)")
    uf = alias_classes(fn)
    a = Automaton(fn, "O10.6b version::recovery::recover: the version file is parsed only after it matched the checksum stored in `current`")
    cur = calls(fn, r"get_current_version_and_checksum$|get_current_version$")
    ver = calls(fn, r"(^|::)verify_checksum(::<.*>)?$")
    parse = calls(fn, r"sfa::Reader::new|Reader::new::<")
    if not parse:
        raise MirError("recover: sfa::Reader::new call not found")
    ok_ret, _ = ret_blocks(fn)
    a.var("verified")
    good = []
    for b in ver:
        args = [x.strip() for x in mir.split_top(b.args)]
        # the expected checksum must come from the `current` file read in this function
        exp = RE_LOCAL.search(args[-1])
        if cur and exp and any(same_class(uf, exp.group(0), c.dest) for c in cur):
            good.append(b)
    a.event("ok:verify_checksum(version file, checksum from current)", ok_blocks(fn, good, "verify_checksum", strict=False))
    a.on("ok:verify_checksum(version file, checksum from current)", "verified", True)
    a.event("call:parse version file", [b.idx for b in parse])
    a.event("ret_ok", ok_ret)
    a.require("call:parse version file", "{verified}", "the version file is parsed before (or without) being verified against the checksum in `current`")
    a.require("ret_ok", "{verified}", "recover returns a Recovery without having verified the version file")
    return [a]



# ---------------------------------------------------------------------------------------------
# branch edges of boolean calls + glue facts
# ---------------------------------------------------------------------------------------------
import glue


def preds(fn):
    p = {}
    for b in live_blocks(fn):
        for t in b.succ:
            p.setdefault(t, set()).add(b.idx)
    return p


def bool_edges(fn, switch_block, on_local):
    """(true_target, false_target) of a switchInt on a bool local (handles an interposed Not)."""
    sw = switch_block
    if sw.kind != "switch":
        raise MirError("expected a switchInt in bb%d" % sw.idx)
    arg = RE_LOCAL.search(sw.args).group(0)
    flipped = False
    if arg != on_local:
        d = [st for st in sw.stmts if st.startswith(arg + " = ")]
        if len(d) == 1 and re.match(r"^_\d+ = Not\((move|copy) %s\)$" % on_local, d[0]):
            flipped = True
        else:
            raise MirError("switch in bb%d is not on %s" % (sw.idx, on_local))
    t = f = None
    for v, tgt in sw.switch:
        if v == "0":
            f = tgt
        elif v in ("otherwise", "1"):
            t = tgt if t is None or v == "1" else t
    if t is None or f is None:
        raise MirError("switch in bb%d has no two-way targets" % sw.idx)
    if flipped:
        t, f = f, t
    return t, f


def edge_block(fn, switch_idx, target):
    """an edge is representable as an event on its target block only if nothing else jumps there"""
    if preds(fn).get(target, set()) == {switch_idx}:
        return target
    # split the edge: a synthetic pass-through block that only this edge enters
    new = max(fn.blocks) + 1
    nb = mir.Block(new, False)
    nb.kind, nb.succ, nb.term = "goto", [target], "goto -> bb%d (synthetic edge block for bb%d -> bb%d)" % (target, switch_idx, target)
    fn.blocks[new] = nb
    sw = fn.blocks[switch_idx]
    done = False
    for i, t in enumerate(sw.succ):
        if t == target and not done:
            sw.succ[i] = new
            done = True
    if sw.kind == "switch":
        done = False
        for i, (v, t) in enumerate(sw.switch):
            if t == target and not done:
                sw.switch[i] = (v, new)
                done = True
    return new


def call_bool_edges(fn, b):
    """(true edge target, false edge target, switch block idx) for a call returning bool"""
    if not b.succ:
        raise MirError("diverging call")
    sw = fn.blocks[b.succ[0]]
    t, f = bool_edges(fn, sw, b.dest)
    return t, f, sw.idx


def true_edge(fn, b):
    t, f, sw = call_bool_edges(fn, b)
    return edge_block(fn, sw, t)


def false_edge(fn, b):
    t, f, sw = call_bool_edges(fn, b)
    return edge_block(fn, sw, f)


def with_merge_blob_rules(fns):
    fn = mir.find(fns, r"src/version/mod\.rs[^>]*>::with_merge\(")
    uf = alias_classes(fn)
    a = Automaton(fn, "O9.3b Version::with_merge: new blob files are inserted, dropped ones removed, the fragmentation diff merged - unless the respective input is empty")
    newp, dropp, diffp = fn.debug.get("new_blob_files"), fn.debug.get("blob_files_to_drop"), fn.debug.get("diff")
    if not (newp and dropp):
        raise MirError("with_merge: parameters new_blob_files / blob_files_to_drop not found")
    # emptiness tests and their true edges
    new_true, drop_true = [], []
    skip = set()  # inputs whose emptiness test is not a plain branch: their requirement is dropped (no false alarm)
    for b in calls(fn, r"::is_empty$"):
        al = arg_locals(b)
        if any(same_class(uf, x, newp) for x in al) and "BlobFile" in b.callee:
            try:
                new_true.append(true_edge(fn, b))
            except MirError:
                skip.add("new")
        elif any(same_class(uf, x, dropp) for x in al):
            try:
                drop_true.append(true_edge(fn, b))
            except MirError:
                skip.add("drop")
    # has_diff = diff.is_some(): false edges of every switch on that bool
    some = [b for b in calls(fn, r"Option::<FragmentationMap>::is_some$")]
    diff_false = []
    if len(some) == 1:
        hd = some[0].dest
        for b in live_blocks(fn):
            if b.kind == "switch" and RE_LOCAL.search(b.args).group(0) == hd:
                diff_false.append(edge_block(fn, b.idx, bool_edges(fn, b, hd)[1]))
    else:
        raise MirError("with_merge: diff.is_some() not found exactly once")
    # `if let Some(diff) = diff`: the None edge of a discriminant test of the same option is also "no diff"
    if diffp is None:
        diffp = RE_LOCAL.search(some[0].args).group(0)
    for b in live_blocks(fn):
        if b.kind != "switch":
            continue
        for st in b.stmts:
            m = re.match(r"^(_\d+) = discriminant\((_\d+)\)$", st)
            if m and m.group(1) == RE_LOCAL.search(b.args).group(0) and (same_class(uf, m.group(2), diffp) or same_class(uf, m.group(2), RE_LOCAL.search(some[0].args).group(0))):
                for v, tgt in b.switch:
                    if v == "0":
                        diff_false.append(edge_block(fn, b.idx, tgt))
    cons_new = [b for b in calls(fn, r"as IntoIterator>::into_iter$") if "BlobFile" in b.callee and any(same_class(uf, x, newp) for x in arg_locals(b))]
    ins = calls(fn, r"BlobFileList::insert$")
    cons_drop = [b for b in calls(fn, r"as IntoIterator>::into_iter$") if any(same_class(uf, x, dropp) for x in arg_locals(b))]
    rem = calls(fn, r"BlobFileList::remove$")
    merged = calls(fn, r"FragmentationMap::merge_into$")
    rets = [b.idx for b in live_blocks(fn) if b.kind == "return"]
    a.var("new_empty").var("new_done").var("drop_empty").var("drop_done").var("no_diff").var("diff_done")
    a.event("edge:new_blob_files.is_empty()==true", new_true).on("edge:new_blob_files.is_empty()==true", "new_empty", True)
    a.event("edge:blob_files_to_drop.is_empty()==true", drop_true).on("edge:blob_files_to_drop.is_empty()==true", "drop_empty", True)
    a.event("edge:diff.is_some()==false", diff_false).on("edge:diff.is_some()==false", "no_diff", True)
    a.event("call:for blob_file in new_blob_files", [b.idx for b in cons_new] if ins else []).on("call:for blob_file in new_blob_files", "new_done", True)
    a.event("call:for id in blob_files_to_drop", [b.idx for b in cons_drop] if rem else []).on("call:for id in blob_files_to_drop", "drop_done", True)
    a.event("call:diff.merge_into", [b.idx for b in merged]).on("call:diff.merge_into", "diff_done", True)
    a.event("return", rets)
    if "new" not in skip:
        a.require("return", "(or {new_empty} {new_done})", "with_merge can return without inserting the blob files the compaction created although it never saw that list empty (pointers into them dangle)")
    if "drop" not in skip:
        a.require("return", "(or {drop_empty} {drop_done})", "with_merge can return without removing blob_files_to_drop although it never saw that set empty")
    a.name += "" if not skip else " [requirement(s) for %s skipped: emptiness test is not a plain branch]" % ", ".join(sorted(skip))
    a.require("return", "(or {no_diff} {diff_done})", "with_merge can return without merging the fragmentation diff although diff.is_some()")
    return [a]


def leveled_trivial_lmax(fns):
    fn = mir.find(fns, r"src/compaction/leveled/mod\.rs[^>]*>::choose\(")
    ctx = glue.Ctx(fn)
    a = Automaton(fn, "O7.5 leveled::Strategy::choose: L0 is moved straight into the last level only if every level strictly between is empty and the key ranges do not overlap")
    # all `_0 = Choice::Move(move _i)` statements whose Input.dest_level == level_count - 1
    lc_calls = calls(fn, r"^Version::level_count$")
    if not lc_calls:
        raise MirError("choose: Version::level_count not called")
    lc, _ = glue.term(ctx, lc_calls[0].dest)
    lmax64 = "(bvsub %s (_ bv1 64))" % lc
    moves, glue_results = [], []
    for b in live_blocks(fn):
        for st in b.stmts:
            m = re.match(r"^_0 = Choice::Move\(move (_\d+)\)$", st)
            if not m:
                continue
            inp = [x for bb in live_blocks(fn) for x in bb.stmts if re.match(r"^%s = (compaction::)?Input \{" % re.escape(m.group(1)), x)]
            if len(inp) != 1:
                continue
            dm = re.search(r"dest_level: (move|copy) (_\d+)", inp[0])
            t, w = glue.term(ctx, dm.group(2))
            v, detail, dt, smt = glue.equal_for_all(ctx, t, "((_ extract 7 0) %s)" % lmax64)
            glue_results.append(("dest_level == level_count - 1 (as u8) for the Move in bb%d" % b.idx, v, dt))
            if v == "proved":
                moves.append(b.idx)
    if not moves:
        raise MirError("choose: no Move whose destination is provably the last level (trivial_lmax block not found)")
    # the emptiness scan: Range { start: 1, end: E }.any(closure) with E == level_count - 1
    scans_false = []
    for b in calls(fn, r"<std::ops::Range<usize> as Iterator>::(any|all)::<"):
        rng = None
        for st in b.stmts:
            mm = re.match(r"^(_\d+) = std::ops::Range::<usize> \{ start: (.*), end: (.*) \}$", st)
            if mm:
                rng = mm
        if rng is None:
            continue
        s0, _ = glue.operand(ctx, rng.group(2), 8)
        e0, _ = glue.operand(ctx, rng.group(3), 8)
        v1 = glue.equal_for_all(ctx, s0, "(_ bv1 64)")
        v2 = glue.equal_for_all(ctx, e0, lmax64)
        glue_results.append(("intermediate-level scan starts at level 1 (bb%d)" % b.idx, v1[0], v1[2]))
        glue_results.append(("intermediate-level scan ends before level_count - 1 (bb%d)" % b.idx, v2[0], v2[2]))
        cl = closure_fns(fns, b)
        is_any = "Iterator>::any::<" in b.callee
        reads_level = any(fn_calls_matching(fns, c, r"^Version::level$", 0) and fn_calls_matching(fns, c, r"::is_empty$", 0) for c in cl)
        negated = any(re.search(r"= Not\(", st) for c in cl for blk in live_blocks(c) for st in blk.stmts)
        if v1[0] == "proved" and v2[0] == "proved" and reads_level:
            # any(|i| !level(i).is_empty()) == false   or   all(|i| level(i).is_empty()) == true   <=> all intermediate levels empty
            if is_any and negated:
                scans_false.append(false_edge(fn, b))
            elif (not is_any) and (not negated):
                scans_false.append(true_edge(fn, b))
    if not calls(fn, r"<std::ops::Range<usize> as Iterator>::(any|all)::<"):
        raise MirError("choose: the intermediate-level emptiness scan is no longer a `(a..b).any(..)` / `.all(..)` (refactored?)")
    ov = calls(fn, r"KeyRange::overlaps_with_key_range$")
    ov_false = []
    for b in ov:
        try:
            ov_false.append(false_edge(fn, b))
        except MirError:
            pass
    a.glue = glue_results
    a.var("between_empty").var("disjoint")
    a.event("edge:(1..level_count-1).any(level non-empty)==false", scans_false).on("edge:(1..level_count-1).any(level non-empty)==false", "between_empty", True)
    a.event("edge:lmax.overlaps(l0)==false", ov_false).on("edge:lmax.overlaps(l0)==false", "disjoint", True)
    a.event("stmt:Choice::Move(dest = last level)", moves)
    a.require("stmt:Choice::Move(dest = last level)", "{between_empty}", "L0 can be moved straight into the last level although not every level strictly between 0 and the last was checked to be empty: a newer version ends up beneath an older one")
    a.require("stmt:Choice::Move(dest = last level)", "{disjoint}", "L0 can be moved into the last level without the key-range overlap check")
    return [a]


def evict_flag(fns):
    """O1.9: tombstones are evicted only when compacting into the last level; never at flush."""
    fn = mir.find(fns, r"^fn merge_tables\(")
    ctx = glue.Ctx(fn)
    a = Automaton(fn, "O1.9 merge_tables: evict_tombstones(dest_level == level_count - 1), zero_seqnos(false)")
    ev = one(calls(fn, r"CompactionStream::<.*>::evict_tombstones$"), "evict_tombstones call")
    args = [x.strip() for x in mir.split_top(ev.args)]
    flag, _ = glue.operand(ctx, args[1], 10)
    # reference: payload.dest_level == config.level_count - 1  (both u8 field reads = free variables)
    frees = sorted(v for (n, w), v in ctx.free.items() if w == 8)
    if len(frees) != 2:
        raise MirError("merge_tables: evict flag does not depend on exactly two u8 fields (%s)" % frees)
    cands = ["(ite (= %s (bvsub %s (_ bv1 8))) #b1 #b0)" % (frees[0], frees[1]), "(ite (= %s (bvsub %s (_ bv1 8))) #b1 #b0)" % (frees[1], frees[0])]
    names = " / ".join(frees)
    res = [glue.equal_for_all(ctx, flag, c) for c in cands]
    okg = any(r[0] == "proved" for r in res)
    dest_named = any("dest_level" in f for f in frees) or True
    a.glue = [("evict flag == (one u8 field == other u8 field - 1) over %s" % names, "proved" if okg else res[0][0], res[0][2] + res[1][2])]
    zs = calls(fn, r"CompactionStream::<.*>::zero_seqnos$")
    zs_ok = all([x.strip() for x in mir.split_top(b.args)][1] == "const false" for b in zs)
    a.var("x")
    a.event("call:evict_tombstones(flag != last-level test)", [] if okg else [ev.idx])
    a.event("call:zero_seqnos(true)", [] if zs_ok else [b.idx for b in zs])
    a.require("call:evict_tombstones(flag != last-level test)", "false", "tombstones can be evicted by a compaction that does not write into the last level (deleted keys resurface)")
    a.require("call:zero_seqnos(true)", "false", "compaction rewrites sequence numbers")
    out = [a]
    fl = mir.find(fns, r"^fn AbstractTree::flush\(")
    b = Automaton(fl, "O1.9b AbstractTree::flush: the flush stream never evicts tombstones")
    bad = []
    for c in calls(fl, r"::evict_tombstones$"):
        if [x.strip() for x in mir.split_top(c.args)][1] != "const false":
            bad.append(c.idx)
    if not calls(fl, r"CompactionStream::<.*>::new$"):
        raise MirError("flush: CompactionStream::new not found")
    b.var("x")
    b.event("call:evict_tombstones(non-false) in flush", bad)
    b.require("call:evict_tombstones(non-false) in flush", "false", "flush may evict tombstones although older versions live in the tables below")
    out.append(b)
    return out



# ---------------------------------------------------------------------------------------------
# C04 O4.3: a reopened tree continues its id counters above everything it recovered, and refuses
#            to open when a file the version names is missing
# ---------------------------------------------------------------------------------------------

def _call_chain(fn, local, depth=8):
    """callee names along the definition chain of a call-defined local (first argument of each call)"""
    out = []
    cur = local
    for _ in range(depth):
        bs = [b for b in live_blocks(fn) if b.kind == "call" and b.dest == cur]
        if len(bs) != 1:
            break
        out.append(bs[0].callee)
        m = RE_LOCAL.search(bs[0].args or "")
        if not m:
            break
        cur = m.group(0)
        # follow simple moves
        for _ in range(4):
            d = [st for b in live_blocks(fn) for st in b.stmts if re.match(r"^%s = (move |copy |&mut |&)_\d+$" % cur, st)]
            if len(d) == 1:
                cur = RE_LOCAL.findall(d[0])[1]
            else:
                break
    return out


def reopen_counters(fns):
    out = []
    fn = mir.find(fns, r"src/tree/mod\.rs[^>]*>::recover\(_1: Config")
    ctx = glue.Ctx(fn)
    a = Automaton(fn, "O4.3a Tree::recover: the table id counter restarts at max(recovered table ids) + 1")
    news = calls(fn, r"SequenceNumberCounter::new$")
    # which `new` feeds the table_id_counter field of TreeInner?
    agg = [st for b in live_blocks(fn) for st in b.stmts if re.search(r"= (tree::inner::)?TreeInner \{", st)]
    if len(agg) != 1:
        raise MirError("Tree::recover: TreeInner aggregate not found")
    m = re.search(r"(?<![a-z_])table_id_counter: (move|copy) (_\d+)", agg[0])
    if not m:
        raise MirError("Tree::recover: table_id_counter field not found")
    src = [b for b in news if b.dest == m.group(2)]
    if len(src) != 1:
        raise MirError("Tree::recover: table_id_counter is not the direct result of SequenceNumberCounter::new")
    arg = RE_LOCAL.search(src[0].args).group(0)
    t, w = glue.term(ctx, arg)
    # the term must be  <max of table ids> + 1
    frees = [v for (n, ww), v in ctx.free.items() if ww == 64]
    ok = False
    results = []
    for fv in frees:
        v, detail, dt, smt = glue.equal_for_all(ctx, t, "(bvadd %s (_ bv1 64))" % fv)
        if v == "proved":
            # fv is the result of unwrap_or_default(max(map(iter_tables(version), Table::id)))
            base = [b for b in live_blocks(fn) if b.kind == "call" and b.dest and glue.term(ctx, b.dest)[0] == fv] if False else []
            ok = True
            results.append(("table_id_counter start == X + 1 where X = %s" % fv[:90], v, dt))
    # X must be max over Table::id of iter_tables(recovered version)
    add = [st for b in live_blocks(fn) for st in b.stmts if re.match(r"^_\d+ = AddWithOverflow\(copy (_\d+), const 1_u64\)$", st)]
    chain_ok = False
    for st in add:
        x = RE_LOCAL.findall(st)[1]
        chain = _call_chain(fn, x)
        if len(chain) >= 3 and "unwrap_or_default" in chain[0] and re.search(r"as Iterator>::max$", chain[1]) and \
                any("iter_tables" in c for c in chain) and any(re.search(r"Table::id", b.args or "") for b in live_blocks(fn) if b.kind == "call" and "as Iterator>::map" in b.callee):
            chain_ok = True
    a.glue = results + [("X = unwrap_or_default(max(map(iter_tables(recovered version), Table::id)))", "proved" if chain_ok else "refuted", 0.0)]
    a.var("x")
    a.event("call:SequenceNumberCounter::new(table id counter NOT max+1)", [] if (ok and chain_ok) else [src[0].idx])
    a.require("call:SequenceNumberCounter::new(table id counter NOT max+1)", "false", "after reopen new tables can be given ids that collide with recovered tables (counter does not restart at max recovered id + 1)")
    out.append(a)

    bo = mir.find(fns, r"src/blob_tree/mod\.rs[^>]*>::open\(")
    b2 = Automaton(bo, "O4.3b BlobTree::open: the blob file id counter continues at max(blob file ids) + 1")
    st = one(calls(bo, r"SequenceNumberCounter::set$"), "blob_file_id_counter.set")
    val = RE_LOCAL.findall(st.args)[-1]
    chain = _call_chain(bo, val)
    inc_ok = False
    for c in chain:
        if "Option::<&u64>::map" in c or "::map::<u64" in c:
            for cf in fns:
                sp = cf.closure_span()
                if sp and sp in c and (any(re.search(r"AddWithOverflow\(.*, const 1_u64\)", s2) for bb in live_blocks(cf) for s2 in bb.stmts) or
                                       any(bb.kind == "call" and re.search(r"as Add<u64>>::add$", bb.callee) and re.search(r"const 1_u64$", bb.args or "") for bb in live_blocks(cf))):
                    inc_ok = True
    chain_ok2 = len(chain) >= 3 and "unwrap_or_default" in chain[0] and any(re.search(r"as Iterator>::max$", c) for c in chain) and any("list_ids" in c for c in chain)
    b2.glue = [("value set = unwrap_or_default(map(max(list_ids(current blob files)), |x| x + 1))", "proved" if (inc_ok and chain_ok2) else "refuted", 0.0)]
    b2.var("x")
    b2.event("call:blob_file_id_counter.set(NOT max+1)", [] if (inc_ok and chain_ok2) else [st.idx])
    b2.require("call:blob_file_id_counter.set(NOT max+1)", "false", "after reopen new blob files can be given ids that collide with recovered blob files")
    out.append(b2)
    return out


def recovery_refuses_missing(fns):
    out = []
    for sel, nm in ((r"src/tree/mod\.rs[^>]*>::recover_levels\(", "recover_levels (tables)"), (r"^fn recover_blob_files\(", "recover_blob_files")):
        fn = mir.find(fns, sel)
        a = Automaton(fn, "O4.2b %s: Ok only if at least as many files were recovered as the version names" % nm)
        # the guard: `_x = Lt(recovered.len(), expected)`; its true edge leads to Err(Unrecoverable)
        guards = []
        for b in live_blocks(fn):
            for st in b.stmts:
                m = re.match(r"^(_\d+) = Lt\((move|copy) (_\d+), (move|copy) (_\d+)\)$", st)
                if m and b.kind == "switch" and RE_LOCAL.search(b.args).group(0) == m.group(1):
                    lens = [bb.callee for bb in live_blocks(fn) if bb.kind == "call" and bb.dest in (m.group(3), m.group(5))]
                    if any(re.search(r"::len$", c) for c in lens):
                        t, f = bool_edges(fn, b, m.group(1))
                        guards.append((b.idx, t, f))
        if not guards:
            raise MirError("%s: no `recovered.len() < expected` guard found" % nm)
        ok_ret, err_ret = ret_blocks(fn)
        scans = calls(fn, r"(^|::)read_dir(::<|$)")
        if not scans:
            raise MirError("%s: directory scan (read_dir) not found" % nm)
        a.var("enough").var("scanned")
        a.event("call:read_dir", [b.idx for b in scans]).on("call:read_dir", "scanned", True)
        a.event("edge:recovered < expected == false", [edge_block(fn, g[0], g[2]) for g in guards]).on("edge:recovered < expected == false", "enough", True)
        a.event("ret_ok", ok_ret)
        # (an Ok before the directory was scanned - blobs folder absent - is outside this obligation)
        a.require("ret_ok", "(or (not {scanned}) {enough})", "%s can return Ok after scanning the directory although fewer files were recovered than the version names (a missing table / blob file is not refused)" % nm)
        out.append(a)
    return out



# ---------------------------------------------------------------------------------------------
# C14 / C02 O14.3: every item a table iterator / scanner yields carries seqno + global_seqno
# ---------------------------------------------------------------------------------------------

def _closure_adds(fns, call_block):
    """does a closure passed to this call contain a checked u64 addition fed by a captured place?"""
    for cf in closure_fns(fns, call_block):
        for b in live_blocks(cf):
            for st in b.stmts:
                if re.search(r"= AddWithOverflow\(", st):
                    return True
    return False


def _seqno_translation(fns, sel, title, produce_re):
    fn = mir.find(fns, sel)
    uf = alias_classes(fn)
    a = Automaton(fn, title)
    prods = calls(fn, produce_re)
    if not prods:
        raise MirError("no data-block item producer found in " + fn.name)
    maps_add = [b for b in calls(fn, r"Option::<InternalValue>::map::<InternalValue, \{closure") if _closure_adds(fns, b)]
    inline = []
    for b in live_blocks(fn):
        for st in b.stmts:
            if re.search(r"= AddWithOverflow\(copy \(\(.*key::InternalKey\)\.1: u64\), (copy|move) ", st) or \
               re.search(r"= AddWithOverflow\(.*InternalKey\)\.1: u64\)", st):
                inline.append(b.idx)
    none_edges = []
    for b in live_blocks(fn):
        if b.kind != "switch":
            continue
        for st in b.stmts:
            m = re.match(r"^(_\d+) = discriminant\((_\d+)\)$", st)
            if m and m.group(1) == RE_LOCAL.search(b.args).group(0) and any(same_class(uf, m.group(2), p.dest) for p in prods):
                for v, tgt in b.switch:
                    if v == "0":
                        none_edges.append(edge_block(fn, b.idx, tgt))
    rets = []
    for b in live_blocks(fn):
        for st in b.stmts:
            if re.match(r"^_0 = Option::<std::result::Result<InternalValue, error::Error>>::Some\(", st):
                rets.append(b.idx)
    # a yield can also be `_0 = produced.map(Ok)` / `.map(|v| ..)`: a call whose destination is the return place
    for b in live_blocks(fn):
        if b.kind == "call" and b.dest == "_0" and re.search(r"Option::<InternalValue>::map::<", b.callee) and b not in maps_add:
            rets.append(b.idx)
    if not rets:
        raise MirError("no `Some(..)` return found in " + fn.name)
    a.var("produced").var("translated")
    a.event("call:data block item", [b.idx for b in prods]).on("call:data block item", "produced", True).on("call:data block item", "translated", False)
    a.event("edge:item == None", none_edges).on("edge:item == None", "produced", False)
    a.event("call:map(|v| v.seqno += global_seqno)", [b.idx for b in maps_add]).on("call:map(|v| v.seqno += global_seqno)", "translated", True)
    a.event("stmt:item.seqno += global_seqno", inline).on("stmt:item.seqno += global_seqno", "translated", True)
    a.event("stmt:return Some(..)", rets)
    a.require("stmt:return Some(..)", "(or (not {produced}) {translated})", "an item read from a data block can be yielded without adding the table's global seqno (ingested data gets the wrong age: invisible to / shadowed for the wrong snapshots)")
    return a


def seqno_translation(fns):
    it = r"<OwnedDataBlockIter as (Iterator>::next|DoubleEndedIterator>::next_back)$"
    return [
        _seqno_translation(fns, r"src/table/iter\.rs[^>]*>::next\(_1: &mut table::iter::Iter\)", "O14.3a table::Iter::next: every yielded item carries seqno + global_seqno", it),
        _seqno_translation(fns, r"src/table/iter\.rs[^>]*>::next_back\(_1: &mut table::iter::Iter\)", "O14.3b table::Iter::next_back: every yielded item carries seqno + global_seqno", it),
        _seqno_translation(fns, r"src/table/scanner\.rs[^>]*>::next\(", "O14.3c table::Scanner::next: every yielded item carries seqno + global_seqno", it),
    ]


# ---------------------------------------------------------------------------------------------
# C03 O3.6: iterators serve the front only from the front and the back only from the back
# ---------------------------------------------------------------------------------------------

BACKWARD = r"(DoubleEndedIterator>::next_back$|::next_back$|::peek_back$|::pop_max$|::peek_max$|::max$)"
FORWARD = r"(as Iterator>::next$|::pop_min$|::peek_min$|DoubleEndedPeekable<.*>::next$|::peek$|::next_if::<)"


def direction_discipline(fns):
    out = []
    targets = [
        (r"src/table/iter\.rs[^>]*>::next\(_1: &mut table::iter::Iter\)", "table::Iter::next", BACKWARD),
        (r"src/table/iter\.rs[^>]*>::next_back\(_1: &mut table::iter::Iter\)", "table::Iter::next_back", FORWARD),
        (r"src/run_reader\.rs[^>]*>::next\(_1: &mut RunReader\)", "RunReader::next", BACKWARD),
        (r"src/run_reader\.rs[^>]*>::next_back\(_1: &mut RunReader\)", "RunReader::next_back", FORWARD),
        (r"src/merge\.rs[^>]*>::next\(_1: &mut Merger<I>\)", "Merger::next", BACKWARD),
        (r"src/merge\.rs[^>]*>::next_back\(_1: &mut Merger<I>\)", "Merger::next_back", FORWARD),
        (r"src/mvcc_stream\.rs[^>]*>::next\(_1: &mut MvccStream<I>\)", "MvccStream::next", BACKWARD),
    ]
    for sel, nm, bad_re in targets:
        fn = mir.find(fns, sel)
        a = Automaton(fn, "O3.6 %s serves its end of the scan only from that end of its sources" % nm)
        bad = calls(fn, bad_re)
        anyc = [b for b in live_blocks(fn) if b.kind == "call"]
        if not anyc:
            raise MirError("no calls in " + fn.name)
        a.var("x")
        a.event("call:wrong-direction access", [b.idx for b in bad])
        a.require("call:wrong-direction access", "false", "%s pulls an item from the opposite end of one of its sources (items come out in the wrong order / cross the other end)" % nm)
        out.append(a)
    return out


# ---------------------------------------------------------------------------------------------
# C09 O9.4: a blob reference is linked to the table that holds the pointer
# ---------------------------------------------------------------------------------------------

def register_blob_after_write(fns):
    """MultiWriter::write may rotate to a new table; register_blob links to the *current* table, so it
    must come after the pointer's write succeeded."""
    out = []
    hosts = [f for f in fns if not getattr(f, "skip", False) and calls(f, r"MultiWriter::register_blob$")]
    if not hosts:
        raise MirError("no caller of MultiWriter::register_blob found")
    for fn in hosts:
        a = Automaton(fn, "O9.4 %s: register_blob only after the pointer was written (MultiWriter::write may rotate tables)" % fn.name[-60:])
        regs = calls(fn, r"MultiWriter::register_blob$")
        writes = calls(fn, r"table::multi_writer::MultiWriter::write$|MultiWriter::write$")
        a.var("written")
        a.event("ok:MultiWriter::write", ok_blocks(fn, writes, "MultiWriter::write", strict=False)).on("ok:MultiWriter::write", "written", True)
        a.event("call:register_blob", [b.idx for b in regs]).on("call:register_blob", "written", False)
        a.require("call:register_blob", "{written}", "a blob reference can be linked to a table before the pointer is written: if the writer rotates, the reference lands in the previous table and the garbage statistics count a live blob")
        out.append(a)
    return out



# ---------------------------------------------------------------------------------------------
# C18 O18.3 / O18.4: sequence-number high-water marks are computed from the right fields
# ---------------------------------------------------------------------------------------------

def struct_fields(src_root, rel, name):
    """declaration-ordered field names of `struct name` in src_root/rel (MIR numbers fields in that order)"""
    txt = open(os.path.join(src_root, rel)).read()
    m = re.search(r"struct %s\s*\{(.*?)\n\}" % re.escape(name), txt, re.S)
    if not m:
        raise MirError("struct %s not found in %s" % (name, rel))
    out = []
    for line in m.group(1).splitlines():
        mm = re.match(r"^\s*(pub(\([^)]*\))?\s+)?([a-z_][a-z0-9_]*)\s*:", line)
        if mm and not line.strip().startswith("//"):
            out.append(mm.group(3))
    return out


import os
SRC_ROOT = os.path.join(os.environ.get("VERIF_SCRATCH", "/var/tmp/verif-scratch"), "mir", "lsm")


def seqno_marks(fns):
    out = []
    # (1) Writer::write keeps lowest / highest seqno
    fields = struct_fields(SRC_ROOT, "src/table/writer/meta.rs", "Metadata")
    lo_i, hi_i = fields.index("lowest_seqno"), fields.index("highest_seqno")
    fn = mir.find(fns, r"src/table/writer/mod\.rs[^>]*>::write\(_1: &mut table::writer::Writer")
    a = Automaton(fn, "O18.3 table::Writer::write: meta.highest_seqno = max(meta.highest_seqno, item seqno), meta.lowest_seqno = min(..)")
    seq_local = fn.debug.get("seqno")
    if not seq_local:
        raise MirError("Writer::write: local `seqno` not found")
    facts = {}
    for b in calls(fn, r"<u64 as Ord>::(min|max)$"):
        which = "max" if b.callee.endswith("max") else "min"
        args = [x.strip() for x in mir.split_top(b.args)]
        # first operand: copy of a Metadata field (possibly via a temp defined in the same block)
        def fld(op):
            mm = re.search(r"Metadata\)\.(\d+): u64\)", op)
            if mm:
                return int(mm.group(1))
            l = RE_LOCAL.search(op)
            if l:
                for st in b.stmts:
                    if st.startswith(l.group(0) + " = "):
                        mm = re.search(r"Metadata\)\.(\d+): u64\)", st)
                        if mm:
                            return int(mm.group(1))
            return None
        f0, f1 = fld(args[0]), fld(args[1])
        uses_seq = any(RE_LOCAL.search(x) and RE_LOCAL.search(x).group(0) == seq_local for x in args)
        # where does the result go?
        dest_field = None
        for nb in [fn.blocks[t] for t in b.succ]:
            for st in nb.stmts:
                mm = re.match(r"^\(\(\(\*_1\)\.\d+: table::writer::meta::Metadata\)\.(\d+): u64\) = move %s$" % re.escape(b.dest), st)
                if mm:
                    dest_field = int(mm.group(1))
        src_field = f0 if f0 is not None else f1
        facts[which] = (src_field, dest_field, uses_seq)
    if "max" not in facts or "min" not in facts:
        # the expected shape (u64::max / u64::min on the tracked fields) is gone: a refactoring, not a verdict
        raise MirError("Writer::write: seqno range is no longer tracked with u64::min / u64::max (found %s)" % sorted(facts))
    ok_hi = facts.get("max") == (hi_i, hi_i, True)
    ok_lo = facts.get("min") == (lo_i, lo_i, True)
    a.glue = [("highest_seqno <- max(highest_seqno, seqno)", "proved" if ok_hi else "refuted", 0.0),
              ("lowest_seqno <- min(lowest_seqno, seqno)", "proved" if ok_lo else "refuted", 0.0)]
    rets = [b.idx for b in live_blocks(fn) if b.kind == "return"]
    ok_ret, _ = ret_blocks(fn)
    upd_hi = [fn.blocks[t].idx for b in calls(fn, r"<u64 as Ord>::max$") for t in b.succ] if ok_hi else []
    upd_lo = [fn.blocks[t].idx for b in calls(fn, r"<u64 as Ord>::min$") for t in b.succ] if ok_lo else []
    a.var("hi").var("lo")
    a.event("ok:highest_seqno = max(highest_seqno, seqno)", upd_hi).on("ok:highest_seqno = max(highest_seqno, seqno)", "hi", True)
    a.event("ok:lowest_seqno = min(lowest_seqno, seqno)", upd_lo).on("ok:lowest_seqno = min(lowest_seqno, seqno)", "lo", True)
    a.event("ret_ok", ok_ret)
    a.require("ret_ok", "(and {hi} {lo})", "Writer::write can return Ok without folding the item's seqno into the table's seqno range (the reported high-water mark no longer equals what is stored)")
    out.append(a)

    # (2) Writer::finish stores the tracked fields under the right names; ParsedMeta reads them back in (min, max) order
    fin = mir.find(fns, r"src/table/writer/mod\.rs[^>]*>::finish\(_1: table::writer::Writer\)")
    b2 = Automaton(fin, "O18.3b table::Writer::finish: `seqno#max` / `seqno#min` are written from meta.highest_seqno / meta.lowest_seqno")
    pairs = {}
    defs = {}
    for bb in live_blocks(fin):
        for st in bb.stmts:
            mm = re.match(r"^(_\d+) = (.*)$", st)
            if mm:
                defs.setdefault(mm.group(1), []).append(mm.group(2))
    calldefs = {bb.dest: bb for bb in live_blocks(fin) if bb.kind == "call" and bb.dest and RE_LOCAL.fullmatch(bb.dest)}

    def const_name(local, depth=4):
        for _ in range(depth):
            d = defs.get(local, [])
            if len(d) != 1:
                return None
            mm = re.search(r'const "([^"]+)"', d[0])
            if mm:
                return mm.group(1)
            l = RE_LOCAL.search(d[0])
            if not l:
                return None
            local = l.group(0)
        return None

    def meta_field(local, depth=6):
        for _ in range(depth):
            if local in calldefs and "to_le_bytes" in calldefs[local].callee:
                cb = calldefs[local]
                mm = re.search(r"Metadata\)\.(\d+): u64\)", cb.args or "")
                if mm:
                    return int(mm.group(1))
                l = RE_LOCAL.search(cb.args or "")
                if not l:
                    return None
                local = l.group(0)
                continue
            d = defs.get(local, [])
            if len(d) != 1:
                return None
            mm = re.search(r"Metadata\)\.(\d+): u64\)", d[0])
            if mm:
                return int(mm.group(1))
            l = RE_LOCAL.search(d[0])
            if not l:
                return None
            local = l.group(0)
        return None

    for blk in calls(fin, r"finish::meta$"):
        args = [x.strip() for x in mir.split_top(blk.args)]
        l0, l1 = RE_LOCAL.search(args[0]), RE_LOCAL.search(args[1])
        nm = re.search(r'const "([^"]+)"', args[0])
        name = nm.group(1) if nm else (const_name(l0.group(0)) if l0 else None)
        if name in ("seqno#max", "seqno#min") and l1:
            pairs[name] = meta_field(l1.group(0))
    if "seqno#max" not in pairs or "seqno#min" not in pairs or None in pairs.values():
        raise MirError("Writer::finish: meta items seqno#max / seqno#min not found in the expected shape (%s)" % pairs)
    okp = pairs.get("seqno#max") == hi_i and pairs.get("seqno#min") == lo_i
    b2.glue = [("meta item seqno#max <- highest_seqno, seqno#min <- lowest_seqno (found: %s)" % pairs, "proved" if okp else "refuted", 0.0)]
    b2.var("x")
    b2.event("call:meta(seqno#..) from the WRONG field", [] if okp else [blk.idx for blk in calls(fin, r"finish::meta$")][:1])
    b2.require("call:meta(seqno#..) from the WRONG field", "false", "the table's stored seqno range is not written from the tracked lowest / highest seqno")
    out.append(b2)

    # (3) the tree-level marks iterate everything
    g = mir.find(fns, r"src/tree/mod\.rs[^>]*>::get_highest_persisted_seqno\(")
    c = Automaton(g, "O18.4 Tree::get_highest_persisted_seqno = max over ALL tables of the current version of Table::get_highest_seqno")
    chain_ok = False
    maxc = [b for b in live_blocks(g) if b.kind == "call" and re.search(r"as Iterator>::max$", b.callee)]
    if len(maxc) != 1:
        raise MirError("get_highest_persisted_seqno: result is not produced by exactly one Iterator::max call")
    rets = [b for b in live_blocks(g) if b.kind == "call" and b.dest == "_0"]
    ch = _call_chain(g, RE_LOCAL.search(maxc[0].args).group(0))
    maps = [b for b in live_blocks(g) if b.kind == "call" and "as Iterator>::map" in b.callee]
    exact = rets == maxc and any("iter_tables" in x for x in ch) and any("current_version" in x for x in ch) and \
        any(re.search(r"Table::get_highest_seqno$", (b.args or "")) for b in maps)
    # recognisably narrower than "every table": an adaptor that selects a subset of levels / runs / tables sits in
    # the function, or a second way of producing the result (early return) exists
    narrowing = [b.callee for b in live_blocks(g) if b.kind == "call" and (
        re.search(r"as Iterator>::(find|find_map|take|skip|nth|last|next|next_back|take_while|skip_while|step_by|position)\b", b.callee)
        or re.search(r"(::first|::last|::get|::level|::l0|::split_first|::split_last|Index<[^>]*>>::index)$", b.callee))]
    if exact and not narrowing:
        chain_ok = True
    elif narrowing or (rets and rets != maxc):
        chain_ok = False
    else:
        raise MirError("get_highest_persisted_seqno: iterator chain neither of the known shape nor recognisably narrower (%s)" % ch)
    c.glue = [("result = max(map(iter_tables(current_version()), Table::get_highest_seqno))", "proved" if chain_ok else "refuted", 0.0)]
    c.var("x")
    c.event("return:NOT the max over all tables", [] if chain_ok else [b.idx for b in live_blocks(g) if b.kind == "return"])
    c.require("return:NOT the max over all tables", "false", "get_highest_persisted_seqno is not the maximum of Table::get_highest_seqno over every table of the current version")
    out.append(c)

    h = mir.find(fns, r"src/tree/mod\.rs[^>]*>::get_highest_memtable_seqno\(")
    d = Automaton(h, "O18.4b Tree::get_highest_memtable_seqno = max(active memtable, every sealed memtable)")
    fin_call = [b for b in live_blocks(h) if b.kind == "call" and b.dest == "_0"]
    if len(fin_call) != 1:
        raise MirError("get_highest_memtable_seqno: result is not produced by a single call")
    okm = False
    if len(fin_call) == 1 and re.search(r"<Option<u64> as Ord>::max$", fin_call[0].callee):
        ops = RE_LOCAL.findall(fin_call[0].args)
        chains = [_call_chain(h, o) for o in ops]
        has_active = any(ch and re.search(r"Memtable::get_highest_seqno$", ch[0]) for ch in chains)
        has_sealed = any(any("flatten" in x for x in ch) and any(re.search(r"as Iterator>::max$", x) for x in ch) and any("SealedMemtables::iter" in x for x in ch) for ch in chains)
        cl_ok = any(fn_calls_matching(fns, cf, r"Memtable::get_highest_seqno$", 0) for b in calls(h, r"as Iterator>::map::<") for cf in closure_fns(fns, b))
        okm = has_active and has_sealed and cl_ok
    d.glue = [("result = max(active.get_highest_seqno(), flatten(max(sealed.iter().map(get_highest_seqno))))", "proved" if okm else "refuted", 0.0)]
    d.var("x")
    d.event("return:NOT max(active, all sealed)", [] if okm else [b.idx for b in live_blocks(h) if b.kind == "return"])
    d.require("return:NOT max(active, all sealed)", "false", "get_highest_memtable_seqno does not cover the active and every sealed memtable")
    out.append(d)
    return out



def version_seqno(fns):
    """O2.3b: a version change draws its seqno with `next()` from the shared counter (so it is larger than
    every seqno handed out before, in particular than every snapshot taken earlier), stores exactly that
    seqno in the new entry and raises the visible seqno to seqno + 1."""
    out = []
    fn = mir.find(fns, r"super_version\.rs[^>]*>::upgrade_version\(")
    a = Automaton(fn, "O2.3b SuperVersions::upgrade_version stamps the new version with seqno_counter.next()")
    up = one(calls(fn, r"SuperVersions::upgrade_version_with_seqno::<"), "upgrade_version_with_seqno call")
    args = [x.strip() for x in mir.split_top(up.args)]
    src = RE_LOCAL.search(args[3]).group(0)
    prod = [b for b in live_blocks(fn) if b.kind == "call" and b.dest == src]
    seq_param = fn.debug.get("seqno")
    ok = len(prod) == 1 and re.search(r"SequenceNumberCounter::next$", prod[0].callee) is not None and \
        seq_param is not None and seq_param in RE_LOCAL.findall(prod[0].args or "")
    a.glue = [("4th argument of upgrade_version_with_seqno = SequenceNumberCounter::next(seqno counter)", "proved" if ok else "refuted", 0.0)]
    a.var("x")
    a.event("call:upgrade_version_with_seqno(seqno NOT freshly drawn)", [] if ok else [up.idx])
    a.require("call:upgrade_version_with_seqno(seqno NOT freshly drawn)", "false", "a version change is stamped with a seqno that was not freshly drawn from the counter: a snapshot taken right after it can resolve to later versions / see later writes")
    out.append(a)

    g = mir.find(fns, r"super_version\.rs[^>]*>::upgrade_version_with_seqno\(")
    ctx = glue.Ctx(g)
    b = Automaton(g, "O2.3c upgrade_version_with_seqno stores the given seqno in the new entry and raises the visible seqno to seqno + 1")
    fm = one(calls(g, r"SequenceNumberCounter::fetch_max$"), "visible_seqno.fetch_max")
    fargs = [x.strip() for x in mir.split_top(fm.args)]
    t, w = glue.operand(ctx, fargs[1], 8)
    sp = g.debug.get("seqno")
    if not sp:
        raise MirError("upgrade_version_with_seqno: parameter seqno not found")
    ps, _ = glue.term(ctx, sp)
    v = glue.equal_for_all(ctx, t, "(bvadd %s (_ bv1 64))" % ps)
    stored = any(re.match(r"^\(_\d+\.\d+: u64\) = copy %s$" % re.escape(sp), st) for bb in live_blocks(g) for st in bb.stmts)
    b.glue = [("visible_seqno.fetch_max argument == seqno + 1", v[0], v[2]), ("next_version.seqno = seqno", "proved" if stored else "refuted", 0.0)]
    b.var("x")
    b.event("call:fetch_max(not seqno + 1) / seqno not stored", [] if (v[0] == "proved" and stored) else [fm.idx])
    b.require("call:fetch_max(not seqno + 1) / seqno not stored", "false", "the installed version does not carry the given seqno, or the visible seqno is not raised to seqno + 1")
    out.append(b)
    return out


# ---------------------------------------------------------------------------------------------
# C20 / C09 O20.5: a blob file that a table outside the compaction still references is never picked
# ---------------------------------------------------------------------------------------------

NARROW_RE = r"as Iterator>::(find|find_map|take|skip|nth|last|next_back|take_while|skip_while|step_by|position|min|max|min_by_key|max_by_key|peekable)\b|(::first|::last|::pop|::split_first|::split_last|::swap_remove|::truncate)$"


def _forward_chain(fn, start_local, limit=64):
    """calls that (transitively) consume a value derived from start_local (move/copy/field projections)"""
    locs, out, seen = {start_local}, [], set()
    changed = True
    while changed and len(out) < limit:
        changed = False
        for b in live_blocks(fn):
            for st in b.stmts:
                m = re.match(r"^(_\d+) = (.*)$", st)
                if m and m.group(1) not in locs and locs & set(RE_LOCAL.findall(m.group(2))):
                    locs.add(m.group(1))
                    changed = True
            if b.kind == "call" and b.idx not in seen and locs & set(RE_LOCAL.findall(b.args or "")):
                seen.add(b.idx)
                out.append(b)
                if b.dest and RE_LOCAL.fullmatch(b.dest) and b.dest not in locs:
                    locs.add(b.dest)
                changed = True
    return out


def blob_pick_outside_refs(fns):
    fn = mir.find(fns, r"^fn pick_blob_files_to_rewrite\(")
    a = Automaton(fn, "O20.5 pick_blob_files_to_rewrite: every blob file referenced by a table outside the compaction is removed from the candidates")
    it = one(calls(fn, r"Version::iter_tables$"), "iter_tables call")
    chain = _forward_chain(fn, it.dest)
    outer_next = one([b for b in chain if re.search(r"as Iterator>::next$", b.callee) and "LinkedFile" not in b.callee], "next() of the table loop")
    lst = one(calls(fn, r"Table::list_blob_file_references$"), "direct list_blob_file_references call (outside tables)")
    lok, lerr, _ = ok_err(fn, lst, "list_blob_file_references")
    refs = _forward_chain(fn, fn.blocks[lok].stmts and RE_LOCAL.match(fn.blocks[lok].stmts[0]).group(0) or lst.dest)
    retains = [b for b in refs if re.search(r"Vec::<&BlobFile>::retain::<", b.callee)]
    all_retains = calls(fn, r"::retain::<")
    narrowing = [b for b in refs if re.search(NARROW_RE, b.callee)]
    inner_next = [b for b in refs if re.search(r"IntoIter<LinkedFile> as Iterator>::next$", b.callee) or
                  re.search(r"Iter<'_, LinkedFile> as Iterator>::next$", b.callee)]
    if not narrowing and not (inner_next and retains):
        raise MirError("pick_blob_files_to_rewrite: outside references are neither consumed by a loop with retain nor recognisably narrowed (%s)" % [b.callee for b in refs])
    # the retain closure drops exactly the candidate with the referenced id
    glue_ok = False
    for rb in (retains or all_retains):
        for cf in closure_fns(fns, rb):
            sts = [st for bb in live_blocks(cf) for st in bb.stmts]
            if any(re.match(r"^_0 = Ne\(", st) for st in sts) and fn_calls_matching(fns, cf, r"BlobFile::id$", 0):
                glue_ok = True
    a.glue = [("retain closure keeps a candidate iff its id != the referenced blob file id", "proved" if glue_ok else "refuted", 0.0)]
    # the skip condition is membership of the table in the picked set
    cont = one(calls(fn, r"HashSet::<u64, [^>]*>::contains::<u64>$|VecSet::<u64>::contains::<u64>$"), "picked_tables.contains")
    a.var("pending")
    a.event("ok:list_refs(outside table)", [lok]).on("ok:list_refs(outside table)", "pending", True)
    exhausted = []
    for nb in inner_next:
        sw = fn.blocks[nb.succ[0]]
        if sw.kind != "switch":
            raise MirError("refs.next() is not followed by a switch")
        for v, tgt in list(sw.switch):
            if v == "0":
                exhausted.append(edge_block(fn, sw.idx, tgt))
    a.event("edge:refs exhausted (every reference went through retain)", exhausted).on("edge:refs exhausted (every reference went through retain)", "pending", False)
    some_edges = []
    for nb in inner_next:
        sw = fn.blocks[nb.succ[0]]
        for v, tgt in list(sw.switch):
            if v == "1":
                some_edges.append(edge_block(fn, sw.idx, tgt))
    a.var("have_ref")
    a.event("edge:next reference", some_edges).on("edge:next reference", "have_ref", True)
    a.event("call:retain", [b.idx for b in retains]).on("call:retain", "have_ref", False)
    a.event("call:refs.next", [b.idx for b in inner_next])
    a.event("call:tables.next", [outer_next.idx])
    ok_ret, err_ret = ret_blocks(fn)
    a.event("ret_ok", ok_ret)
    a.event("call:retain with WRONG predicate", [] if glue_ok else [b.idx for b in (retains or all_retains)])
    msg = "a table outside the compaction references a candidate blob file that stays picked: the file is rewritten/dropped and deleted while a live table still points into it"
    a.require("call:tables.next", "(not {pending})", msg)
    a.require("ret_ok", "(not {pending})", msg)
    a.require("call:refs.next", "(not {have_ref})", "a reference of an outside table is skipped without removing its blob file from the candidates")
    a.require("call:retain with WRONG predicate", "false", "retain does not remove the referenced blob file from the candidates")
    return [a]


import xspecs

SPECS = {
    "O19.2": [xspecs.fifo_choose],
    "O1.6": [xspecs.rotate_memtable_step],
    "O4.5": [xspecs.register_tables_step],
    "O4.1": [xspecs.version_roundtrip],
    "O15.3": [xspecs.drop_range_choose],
    "O1.4": [xspecs.point_read_tables],
    "O17.3": [xspecs.filter_adapter],
    "O15.4": [xspecs.clear_resets],
    "O20.5": [blob_pick_outside_refs],
    "O2.3b": [version_seqno],
    "O18.3": [seqno_marks],
    "O14.3": [seqno_translation],
    "O3.6": [direction_discipline],
    "O9.4": [register_blob_after_write],
    "O4.3": [reopen_counters],
    "O4.2b": [recovery_refuses_missing],
    "O9.3b": [with_merge_blob_rules],
    "O7.5": [leveled_trivial_lmax],
    "O1.9": [evict_flag],
    "O10.6b": [recover_verifies],
    "O2.6": [snapshot_pinning],
    "O5.1": [persist_version, rewrite_atomic],
    "O5.2": [table_writer_finish, blob_writer_finish],
    "O5.3": [standard_finish, relocating_finish, drop_tables],
    "O16.1b": [upgrade_version],
    "O16.2": [merge_tables_hidden],
    "O16.4": [drop_tables_err_clean, move_tables],
    "O14.2": [ingestion_finish],
    "O20.3": [recover_levels],
}


# ---------------------------------------------------------------------------------------------
# C09 / C19 / C20 O9.5: Version::with_dropped forgets the fragmentation of blob files it removes from the value log
# ---------------------------------------------------------------------------------------------

def with_dropped_prunes_gc_stats(fns):
    """Invariant of every version: the fragmentation map has entries only for blob files of the value log.
    BlobTree::open restarts the blob file id counter at max(live ids) + 1, so ids of removed blob files are
    handed out again after a reopen; a stale entry would be inherited by an unrelated blob file, which
    `prune_dead` then removes although live tables point into it."""
    fn = mir.find(fns, r"src/version/mod\.rs[^>]*>::with_dropped\(")
    a = Automaton(fn, "O9.5 no blob file inherits stale fragmentation: with_dropped prunes the map, or reopen never re-issues an id the map knows")
    pd = calls(fn, r"BlobFileList::prune_dead$") + calls(fn, r"BlobFileList::remove$")
    if not pd:
        raise MirError("with_dropped: no prune_dead / remove of blob files found")
    pr = calls(fn, r"FragmentationMap::prune$")
    ok_ret, err_ret = ret_blocks(fn)
    # (B) alternatively the ids of stale entries are never handed out again: BlobTree::open continues the blob file id
    # counter after the largest id known to the value log *or the fragmentation map*
    bo = mir.find(fns, r"src/blob_tree/mod\.rs[^>]*>::open\(")
    st = one(calls(bo, r"SequenceNumberCounter::set$"), "blob_file_id_counter.set")
    val = RE_LOCAL.findall(st.args)[-1]
    ch = _call_chain(bo, val)
    chains = [b for b in live_blocks(bo) if b.kind == "call" and re.search(r"as Iterator>::chain::<", b.callee)]
    covers_gc = False
    if len(chains) == 1 and any(re.search(r"as Iterator>::max$", c) for c in ch) and any("as Iterator>::chain::<" in c for c in ch) \
            and not any(re.search(NARROW_RE.replace("|min|max|min_by_key|max_by_key", ""), c) for c in ch if not re.search(r"as Iterator>::max$", c)):
        srcs = []
        for arg in mir.split_top(chains[0].args):
            l = RE_LOCAL.search(arg)
            srcs.append(_call_chain(bo, l.group(0)) if l else [])
        has_ids = any(any("list_ids" in c for c in sc) for sc in srcs)
        has_gc = any(any(re.search(r"HashMap::<u64, FragmentationEntry, [^>]*>::keys$", c) for c in sc) and any("Version::gc_stats" in c for c in sc) for sc in srcs)
        covers_gc = has_ids and has_gc
    a.var("stale")
    a.event("call:value_log.prune_dead", [] if covers_gc else [b.idx for b in pd]).on("call:value_log.prune_dead", "stale", True)
    a.event("call:gc_stats.prune(value_log)", [b.idx for b in pr]).on("call:gc_stats.prune(value_log)", "stale", False)
    a.event("ret_ok", ok_ret)
    a.require("ret_ok", "(not {stale})", "with_dropped removes dead blob files from the value log but keeps their fragmentation entries, and BlobTree::open re-issues their ids after a reopen: an unrelated, live blob file inherits the entries and is dropped as dead")
    # the prune must be against the value log that is stored in the new version, and the pruned map must be the stored one
    if pr:
        uf = alias_classes(fn)
        args = [x.strip() for x in mir.split_top(pr[0].args)]
        l0, l1 = RE_LOCAL.search(args[0]), RE_LOCAL.search(args[1])
        pdl = RE_LOCAL.search(mir.split_top(pd[0].args)[0])
        same_log = l1 is not None and pdl is not None and same_class(uf, l1.group(0), pdl.group(0))
        a.glue = [("gc_stats.prune is given the value log that prune_dead just shrank", "proved" if same_log else "refuted", 0.0)]
        a.glue.append(("BlobTree::open continues the id counter after max(value log ids ++ fragmentation map ids)", "proved" if covers_gc else "refuted", 0.0))
        a.event("call:prune against a different list", [] if same_log else [pr[0].idx])
        a.require("call:prune against a different list", "false", "the fragmentation map is pruned against a blob file list other than the new value log")
    if not pr:
        a.glue = [("BlobTree::open continues the id counter after max(value log ids ++ fragmentation map ids): stale fragmentation entries can never be inherited", "proved" if covers_gc else "refuted", 0.0)]
    return [a]


SPECS["O9.5"] = [with_dropped_prunes_gc_stats]


# ---------------------------------------------------------------------------------------------
# C13 / C14 / C01 O13.3: every write entry point creates the entry type it stands for, at the caller's seqno
# ---------------------------------------------------------------------------------------------

def _vt_of_operand(fn, blk, arg):
    """the ValueType variant an operand of a call denotes (constant, or local assigned `ValueType::X` in the same block)"""
    m = re.search(r"const (?:crate::)?(?:value_type::)?ValueType::(\w+)", arg)
    if m:
        return m.group(1)
    l = RE_LOCAL.search(arg)
    if not l:
        return None
    defs = [st for b in live_blocks(fn) for st in b.stmts if st.startswith(l.group(0) + " = ")]
    if len(defs) != 1:
        return None
    m = re.match(r"^_\d+ = (?:value_type::)?ValueType::(\w+)$", defs[0])
    return m.group(1) if m else None


def value_type_table(fns):
    table = [
        # (selector, constructor regex, index of the type argument (None: implied by the constructor), expected type, index of seqno arg, seqno source regex)
        (r"src/tree/ingest\.rs[^>]*>::write\(", r"InternalValue::from_components::<", 3, "Value", 2, r"^copy \(\(\*_1\)\.\d+: u64\)$"),
        (r"src/tree/ingest\.rs[^>]*>::write_tombstone\(", r"InternalValue::from_components::<", 3, "Tombstone", 2, r"^copy \(\(\*_1\)\.\d+: u64\)$"),
        (r"src/tree/ingest\.rs[^>]*>::write_weak_tombstone\(", r"InternalValue::from_components::<", 3, "WeakTombstone", 2, r"^copy \(\(\*_1\)\.\d+: u64\)$"),
        (r"src/tree/ingest\.rs[^>]*>::write_indirection\(", r"InternalValue::from_components::<", 3, "Indirection", 2, r"^copy \(\(\*_1\)\.\d+: u64\)$"),
        (r"src/tree/mod\.rs[^>]*>::insert\(", r"InternalValue::from_components::<", 3, "Value", 2, r"^copy _4$"),
        (r"src/tree/mod\.rs[^>]*>::remove\(", r"InternalValue::new_tombstone::<", None, None, 1, r"^copy _3$"),
        (r"src/tree/mod\.rs[^>]*>::remove_weak\(", r"InternalValue::new_weak_tombstone::<", None, None, 1, r"^copy _3$"),
        (r"src/compaction/flavour\.rs[^>]*>::write\(_1: &mut RelocatingCompaction", r"InternalValue::from_components::<", 3, "Indirection", 2, r"^copy \(\(_2\.0: key::InternalKey\)\.1: u64\)$"),
        (r"src/value\.rs[^>]*>::new_tombstone\(", r"InternalKey::new::<", 2, "Tombstone", 1, r"^copy _2$"),
        (r"src/value\.rs[^>]*>::new_weak_tombstone\(", r"InternalKey::new::<", 2, "WeakTombstone", 1, r"^copy _2$"),
    ]
    out = []
    for sel, ctor, ti, want, si, sre in table:
        fn = mir.find(fns, sel)
        short = re.sub(r"\\", "", sel).split(">::")[-1].rstrip("(")
        where = "ingestion" if "ingest" in sel else ("tree" if "tree/mod" in sel else ("RelocatingCompaction" if "flavour" in sel else "InternalValue"))
        a = Automaton(fn, "O13.3t %s::%s creates %s" % (where, short, want or ctor.split("::")[1]))
        cs = calls(fn, ctor)
        if len(cs) != 1:
            # a different constructor is used: decidable as wrong only if it is one of the known sibling constructors
            others = calls(fn, r"InternalValue::(from_components|new_tombstone|new_weak_tombstone)::<")
            implied = {"new_tombstone": "Tombstone", "new_weak_tombstone": "WeakTombstone"}
            exp_t = want or implied.get(ctor.split("::")[1], None)
            if len(others) == 1 and exp_t:
                oc = others[0]
                on = re.search(r"InternalValue::(\w+)::<", oc.callee).group(1)
                oargs = [x.strip() for x in mir.split_top(oc.args)]
                got_t = implied.get(on) or (_vt_of_operand(fn, oc, oargs[3]) if len(oargs) > 3 else None)
                if got_t is None:
                    raise MirError("%s: entry constructor %s with an unresolvable type" % (short, on))
                okc = got_t == exp_t
                a.name = "O13.3t %s::%s creates entry type %s" % (where, short, exp_t)
                a.glue = [("entry type = %s (built through %s, found %s)" % (exp_t, on, got_t), "proved" if okc else "refuted", 0.0)]
                a.var("x")
                a.event("call:entry built with the WRONG type", [] if okc else [oc.idx])
                a.require("call:entry built with the WRONG type", "false", "%s::%s writes a %s entry (expected %s)" % (where, short, got_t, exp_t))
                out.append(a)
                continue
            if len(others) == 1:
                a.glue = [("entry constructor is %s" % ctor, "refuted", 0.0)]
                a.var("x")
                a.event("call:WRONG entry constructor", [others[0].idx])
                a.require("call:WRONG entry constructor", "false", "%s::%s builds its entry with %s instead of %s" % (where, short, others[0].callee[:60], ctor))
                out.append(a)
                continue
            raise MirError("%s: expected exactly one call of %s" % (short, ctor))
        c = cs[0]
        args = [x.strip() for x in mir.split_top(c.args)]
        ok_t = True
        got = None
        if ti is not None:
            got = _vt_of_operand(fn, c, args[ti])
            if got is None:
                raise MirError("%s: value type operand %r not resolvable" % (short, args[ti]))
            ok_t = got == want
        ok_s = re.match(sre, args[si]) is not None
        if not ok_s:
            # moved through a temporary?
            l = RE_LOCAL.search(args[si])
            defs = [st for b in live_blocks(fn) for st in b.stmts if l and st.startswith(l.group(0) + " = ")]
            ok_s = len(defs) == 1 and re.match(sre, defs[0].split(" = ", 1)[1]) is not None
        # two queries per row, so that a property can list the half it depends on (type: C13 / C14, seqno: C18)
        a.name = "O13.3t %s::%s creates entry type %s" % (where, short, want or ctor.split("::")[1])
        a.glue = [("type operand = ValueType::%s (found %s)" % (want, got), "proved" if ok_t else "refuted", 0.0)]
        a.var("x")
        a.event("call:entry built with the WRONG type", [] if ok_t else [c.idx])
        a.require("call:entry built with the WRONG type", "false", "%s::%s writes a %s entry (expected %s)" % (where, short, got, want))
        out.append(a)
        a2 = Automaton(fn, "O13.3s %s::%s stamps the entry with the caller's seqno" % (where, short))
        a2.glue = [("seqno operand is the caller's / ingestion's / the index entry's seqno", "proved" if ok_s else "refuted", 0.0)]
        a2.var("x")
        a2.event("call:entry built with the WRONG seqno", [] if ok_s else [c.idx])
        a2.require("call:entry built with the WRONG seqno", "false", "%s::%s writes its entry with a seqno that is not the caller's" % (where, short))
        a = a2
        out.append(a)
    return out


SPECS["O13.3"] = [value_type_table]


# ---------------------------------------------------------------------------------------------
# C10 O10.7: no function drops an Err it has looked at (every Err arm re-raises, converts or panics)
# ---------------------------------------------------------------------------------------------

ERR_T = r"(error::Error|std::io::Error|io::Error|DecodeError|EncodeError|coding::DecodeError|coding::EncodeError)"

SWALLOW_OK = [
    (r"(^|::)verify_checksum$", "retries the read on ErrorKind::Interrupted (EINTR), every other error is returned"),
    (r"src/table/inner\.rs[^>]*>::drop$", "Drop cannot return an error: a failing unlink is logged"),
    (r"src/vlog/blob_file/mod\.rs[^>]*>::drop$", "Drop cannot return an error: a failing unlink is logged"),
    (r"(^|::)drop_tables$", "version-history GC failing after the drop was published is logged, not reported (repair f7a52f6, C16)"),
    (r"src/tree/mod\.rs[^>]*>::register_tables$", "version-history GC failing after the flush was published is logged"),
    (r"src/(blob_)?tree/ingest\.rs[^>]*>::finish$", "version-history GC failing after the ingestion was published is logged"),
    (r"flavour\.rs[^>]*>::finish$", "version-history GC failing after the compaction was published is logged"),
    (r"src/vlog/blob_file/multi_writer\.rs[^>]*>::consume_writer$", "unlinking an empty, unreferenced blob file is best effort (logged; orphans are removed on recovery)"),
]


def _place_type(fn, pl):
    if re.fullmatch(r"_\d+", pl):
        return fn.locals.get(pl) or ""
    mm = re.search(r": ([^()]*(?:\([^()]*\)[^()]*)*)\)$", pl)
    return mm.group(1) if mm else ""


def _is_result_t(t):
    t = t.strip()
    return re.match(r"^(std::result::)?Result<.*, %s>$" % ERR_T, t) is not None and "Infallible" not in t


def _is_cf_t(t):
    return re.match(r"^(std::ops::)?ControlFlow<(std::result::)?Result<(std::convert::)?Infallible, %s>" % ERR_T, t.strip()) is not None


def _pure_cleanup(fn, start, limit=40):
    """everything reachable from `start` is drop / goto / return / drop-flag bookkeeping"""
    seen, todo = set(), [start]
    while todo:
        i = todo.pop()
        if i in seen:
            continue
        seen.add(i)
        if len(seen) > limit:
            return False
        b = fn.blocks[i]
        if b.cleanup:
            continue
        if b.kind == "call" or b.kind == "assert":
            return False
        for st in b.stmts:
            if not re.match(r"^_\d+ = (const (true|false)|discriminant\(.*\)|copy _\d+|move _\d+)$", st):
                return False
        todo.extend(b.succ)
    return True


_FILE_INDEX = {}


def _file_of(f):
    """source file of a function: from the header for impl methods / closures, by a unique `fn name(` match otherwise"""
    m = re.search(r"(src/[\w/]+\.rs)", f.name) or re.search(r"(src/[\w/]+\.rs)", f.closure_span() or "")
    if m:
        return m.group(1)
    if not _FILE_INDEX:
        root = os.path.join(SRC_ROOT, "src")
        for dp, dn, fs in os.walk(root):
            for fn_ in fs:
                if fn_.endswith(".rs"):
                    rel = os.path.relpath(os.path.join(dp, fn_), SRC_ROOT)
                    for mm in re.finditer(r"\bfn (\w+)\s*[<(]", open(os.path.join(dp, fn_), errors="replace").read()):
                        _FILE_INDEX.setdefault(mm.group(1), set()).add(rel)
    base = f.name.split("::")[0] if "{closure" in f.name else f.name.split("::")[-1]
    cands = _FILE_INDEX.get(base, set())
    return sorted(cands)[0] if len(cands) == 1 else "src/?"


def no_swallowed_errors(fns):
    out = []
    for f in fns:
        if getattr(f, "skip", False) or "tests::" in f.name or "::tests" in f.name or f.closure_span() and "/tests" in f.closure_span():
            continue
        sites = []
        for b in list(live_blocks(f)):
            if b.kind != "switch":
                continue
            for st in b.stmts:
                m = re.match(r"^(_\d+) = discriminant\((.*)\)$", st)
                if not m or m.group(1) not in (b.args or ""):
                    continue
                ty = _place_type(f, m.group(2))
                if not (ty and (_is_result_t(ty) or _is_cf_t(ty))):
                    continue
                tg = [t for v, t in b.switch if v == "1"]
                if not tg:
                    if not any(v == "0" for v, _ in b.switch):
                        continue
                    tg = [t for v, t in b.switch if v == "otherwise"]
                if not tg or f.blocks[tg[0]].kind == "dead":
                    continue
                if all(_pure_cleanup(f, t) for _, t in b.switch if f.blocks[t].kind != "dead"):
                    continue  # drop elaboration: both arms only run destructors
                sites.append((b.idx, tg[0], m.group(2)))
        discards = [b for b in live_blocks(f) if b.kind == "call" and re.search(
            r"Result::<.*, %s>::(ok|unwrap_or|unwrap_or_default|unwrap_or_else|map_or|map_or_else|or|or_else)$" % ERR_T, b.callee)]
        if not sites and not discards:
            continue
        white = [why for rx, why in SWALLOW_OK if re.search(rx, f.name)]
        short = f.name.split("::")[-1] if "<impl" not in f.name else re.sub(r"<impl at (src/[^:]+):[^>]*>", r"\1", f.name)
        where = _file_of(f)
        a = Automaton(f, "O10.7 [%s] %s: no Err arm falls through to a normal return" % (where, short[-60:]))
        edges = [edge_block(f, sw, tgt) for sw, tgt, _ in sites]
        prop = []
        for b in live_blocks(f):
            if any(re.search(r"Result::<.*>::Err\(|ControlFlow::<.*>::Break\(", st) for st in b.stmts):
                prop.append(b.idx)
            if b.kind == "call" and re.search(r"from_residual$|panic|unwrap_failed|expect_failed|::expect$|::unwrap$|::expect_err$|::unwrap_err$|::map_err::<", b.callee):
                prop.append(b.idx)
        a.var("err").var("prop")
        a.event("err:Result is Err", [] if white else edges).on("err:Result is Err", "err", True).on("err:Result is Err", "prop", False)
        a.event("stmt:error re-raised / converted / panic", prop).on("stmt:error re-raised / converted / panic", "prop", True)
        a.event("ret", [b.idx for b in live_blocks(f) if b.kind == "return"])
        a.require("ret", "(or (not {err}) {prop})", "an Err result that was inspected is dropped: the function returns normally (corruption / I/O failure is not reported)")
        dis_white = white or re.search(r"fifo\.rs[^>]*>::choose$", f.name)
        a.event("call:Result discarded (ok / unwrap_or..)", [] if dis_white else [b.idx for b in discards])
        a.require("call:Result discarded (ok / unwrap_or..)", "false", "an error result is turned into a default / None")
        if white:
            a.glue = [("exempt: %s" % white[0], "proved", 0.0)]
        out.append(a)
    if len(out) < 50:
        raise MirError("no_swallowed_errors: only %d functions with Result switches found (pattern drift?)" % len(out))
    return out


SPECS["O10.7"] = [no_swallowed_errors]


# ---------------------------------------------------------------------------------------------
# C12 O12.6: every distinct user key is registered with the filter, with the hash the reader probes with
# ---------------------------------------------------------------------------------------------

def filter_registration(fns):
    out = []
    # (a) Writer::write: a new user key is registered (unless the bloom policy is inactive)
    fn = mir.find(fns, r"src/table/writer/mod\.rs[^>]*>::write\(_1: &mut table::writer::Writer")
    a = Automaton(fn, "O12.6a table::Writer::write: a user key seen for the first time is registered with the filter writer")
    ne = one(calls(fn, r"<Option<&slice_default::Slice> as PartialEq>::(ne|eq)$"), "comparison of the item's user key with current_key")
    is_ne = ne.callee.endswith("::ne")
    newkey = true_edge(fn, ne) if is_ne else false_edge(fn, ne)
    act = one(calls(fn, r"BloomConstructionPolicy::is_active$"), "bloom_policy.is_active()")
    inactive = false_edge(fn, act)
    reg = calls(fn, r"as FilterWriter<.*>::register_key$")
    if not reg:
        raise MirError("Writer::write: no register_key call")
    ok_ret, err_ret = ret_blocks(fn)
    # the key registered must be the item's user key (the local that is compared with current_key)
    uf = alias_classes(fn)
    cmp_key = None
    for st in fn.blocks[[b for b in live_blocks(fn) if ne.idx in b.succ or b.idx == ne.idx][0].idx].stmts:
        pass
    key_locals = set()
    for b in live_blocks(fn):
        for st in b.stmts:
            m = re.match(r"^(_\d+) = Option::<&slice_default::Slice>::Some\(move (_\d+)\)$", st)
            if m:
                d = [s2 for bb in live_blocks(fn) for s2 in bb.stmts if s2.startswith(m.group(2) + " = &")]
                if d:
                    key_locals.add(RE_LOCAL.findall(d[0])[1])
    rargs = [x.strip() for x in mir.split_top(reg[0].args)]
    rl = RE_LOCAL.search(rargs[1])
    rdef = [s2 for bb in live_blocks(fn) for s2 in bb.stmts if rl and s2.startswith(rl.group(0) + " = &")]
    same_key = bool(rdef) and RE_LOCAL.findall(rdef[0])[1] in key_locals
    a.glue = [("register_key is given the user key that was compared with current_key", "proved" if same_key else "refuted", 0.0)]
    a.var("newkey").var("handled")
    a.event("edge:user key differs from current_key", [newkey]).on("edge:user key differs from current_key", "newkey", True)
    a.event("call:register_key", [b.idx for b in reg] if same_key else []).on("call:register_key", "handled", True)
    a.event("edge:bloom policy inactive", [inactive]).on("edge:bloom policy inactive", "handled", True)
    a.event("ret_ok", ok_ret)
    a.require("ret_ok", "(or (not {newkey}) {handled})", "a user key enters the table without being registered with the filter: the filter rejects a key that was written (point reads miss it)")
    out.append(a)

    # (b) both filter writers hash with Builder::get_hash(key) and buffer exactly that
    for sel, nm in ((r"src/table/writer/filter/full\.rs[^>]*>::register_key\(", "FullFilterWriter"),
                    (r"src/table/writer/filter/partitioned\.rs[^>]*>::register_key\(", "PartitionedFilterWriter")):
        f2 = mir.find(fns, sel)
        b2 = Automaton(f2, "O12.6b %s::register_key buffers standard_bloom::Builder::get_hash(key)" % nm)
        push = [b for b in live_blocks(f2) if b.kind == "call" and re.search(r"Vec::<u64>::push$", b.callee)]
        okb = False
        if len(push) == 1:
            pv = RE_LOCAL.findall(push[0].args)[-1]
            ch = _call_chain(f2, pv)
            okb = bool(ch) and re.search(r"standard_bloom::builder::Builder::get_hash$", ch[0]) is not None and \
                any(re.search(r"Slice as Deref>::deref$", c) for c in ch[1:2] or ch)
            src = [b for b in live_blocks(f2) if b.kind == "call" and re.search(r"Slice as Deref>::deref$", b.callee)]
            okb = okb and any("_2" in RE_LOCAL.findall(b.args or "") for b in src)
        b2.glue = [("bloom_hash_buffer.push(Builder::get_hash(&*key))", "proved" if okb else "refuted", 0.0)]
        b2.var("x")
        b2.event("ret:hash of the key NOT buffered", [] if okb else [b.idx for b in live_blocks(f2) if b.kind == "return"])
        b2.require("ret:hash of the key NOT buffered", "false", "%s::register_key does not buffer Builder::get_hash(key)" % nm)
        out.append(b2)

    # (c) the reader probes with the same function, computed from the looked-up key
    g = mir.find(fns, r"src/tree/mod\.rs[^>]*>::get_internal_entry_from_tables\(")
    c = Automaton(g, "O12.6c point reads probe tables with standard_bloom::Builder::get_hash(key)")
    tg = calls(g, r"(^|::)Table::get$")
    okc = False
    if len(tg) == 1:
        args = [x.strip() for x in mir.split_top(tg[0].args)]
        if len(args) == 4:
            hl = RE_LOCAL.search(args[3])
            prod = [b for b in live_blocks(g) if b.kind == "call" and hl and b.dest == hl.group(0)]
            okc = len(prod) == 1 and re.search(r"standard_bloom::builder::Builder::get_hash$", prod[0].callee) is not None and \
                RE_LOCAL.findall(prod[0].args) == ["_2"] and RE_LOCAL.findall(args[1]) == ["_2"]
    else:
        raise MirError("get_internal_entry_from_tables: expected one direct Table::get call")
    c.glue = [("Table::get(table, key, seqno, Builder::get_hash(key))", "proved" if okc else "refuted", 0.0)]
    c.var("x")
    c.event("call:Table::get with a hash that is not get_hash(key)", [] if okc else [tg[0].idx])
    c.require("call:Table::get with a hash that is not get_hash(key)", "false", "the filter is probed with a hash other than the one keys are registered with")
    out.append(c)
    return out


SPECS["O12.6"] = [filter_registration]


# ---------------------------------------------------------------------------------------------
# C16 / C20 O16.5: files are flagged for deletion only at the publish-then-delete sites
# ---------------------------------------------------------------------------------------------

MARK_SITES = [r"flavour\.rs[^>]*>::finish$", r"(^|::)drop_tables$"]


def mark_deleted_census(fns):
    """`Table::mark_as_deleted` / `BlobFile::mark_as_deleted` (and direct stores to `is_deleted`) make Drop unlink the file.
    O5.3 / O16.4 decide, per site, that the flag is set only after the version without the file is published. That
    is only meaningful if no *other* function sets the flag - in particular none that runs before publication
    (a version builder, a strategy, a reader). This obligation enumerates every user of the flag."""
    users, stores = [], []
    for f in fns:
        if getattr(f, "skip", False) or "tests::" in f.name or "::tests" in f.name:
            continue
        if re.search(r"::mark_as_deleted$", f.name):
            continue
        hit = False
        for b in f.blocks.values():
            if b.cleanup:
                continue
            if b.kind == "call" and (re.search(r"(Table|BlobFile)::mark_as_deleted$", b.callee) or re.search(r"(Table|BlobFile)::mark_as_deleted\b", b.args or "")):
                hit = True
            if any(re.search(r"(Table|BlobFile)::mark_as_deleted\b", st) for st in b.stmts):
                hit = True
            if b.kind == "call" and re.search(r"AtomicBool::store$", b.callee):
                # which field? resolve the receiver's definition
                l = RE_LOCAL.search(b.args or "")
                if l:
                    for bb in f.blocks.values():
                        for st in bb.stmts:
                            if st.startswith(l.group(0) + " = &") and "is_deleted" in _field_name_hint(f, st):
                                stores.append(f)
        if hit:
            users.append(f)
    if not users:
        raise MirError("mark_as_deleted has no users at all (pattern drift)")
    out = []
    early = r"src/version/|src/table/|src/vlog/|src/memtable|src/range|src/merge|src/mvcc_stream|src/run_|::choose(::|$)|src/compaction/stream\.rs|src/compaction/(leveled|fifo|major|drop_range|pulldown|movedown|maintenance)"
    for f in users + stores:
        allowed = any(re.search(rx, f.name) for rx in MARK_SITES)
        in_upgrade_closure = bool(f.closure_span()) and any(
            b.kind == "call" and re.search(r"SuperVersions::upgrade_version", b.callee) and f.closure_span() in b.callee
            for g in fns if not getattr(g, "skip", False) for b in g.blocks.values() if not b.cleanup)
        if in_upgrade_closure:
            allowed = False
        if not allowed and not in_upgrade_closure and not re.search(early, f.name + " " + (f.closure_span() or "")):
            raise MirError("mark_as_deleted is used by %s, which is neither a known publish-then-delete site nor a function that runs before publication by construction - cannot be judged" % f.name[-80:])
        a = Automaton(f, "O16.5 %s may flag files for deletion: it is one of the publish-then-delete sites" % f.name[-60:])
        a.glue = [("function is in the list of publish-then-delete sites (each decided by O5.3 / O16.4)", "proved" if allowed else "refuted", 0.0)]
        a.var("x")
        bl = [b.idx for b in live_blocks(f) if (b.kind == "call" and (re.search(r"mark_as_deleted", b.callee) or re.search(r"mark_as_deleted", b.args or ""))) or any("mark_as_deleted" in st for st in b.stmts)]
        a.event("call:mark_as_deleted outside the publish-then-delete sites", [] if allowed else (bl or [0]))
        a.require("call:mark_as_deleted outside the publish-then-delete sites", "false",
                  "%s flags a table / blob file for deletion; only StandardCompaction::finish, RelocatingCompaction::finish and drop_tables may do that, after the version without the file was published - a flagged file is unlinked when its last reference drops even if the operation then fails" % f.name.split("::")[-1])
        out.append(a)
    return out


def _field_name_hint(fn, st):
    return st


SPECS["O16.5"] = [mark_deleted_census]


# ---------------------------------------------------------------------------------------------
# C12 / C11 O12.7: a block keeps its hash index only if every restart position is below the FREE marker
# ---------------------------------------------------------------------------------------------

def _const_value(src_rel, name):
    txt = open(os.path.join(SRC_ROOT, "src", src_rel)).read()
    m = re.search(r"const %s\s*:\s*\w+\s*=\s*([^;]+);" % re.escape(name), txt)
    if not m:
        raise MirError("constant %s not found in %s" % (name, src_rel))
    e = m.group(1).strip().replace("u8::MAX", "255").replace("_", "")
    if not re.fullmatch(r"[0-9+\- ]+", e):
        raise MirError("constant %s = %r is not a literal expression" % (name, e))
    return eval(e)


def hash_index_guard(fns):
    fn = mir.find(fns, r"src/table/block/trailer\.rs[^>]*>::write\(")
    a = Automaton(fn, "O12.7 Trailer::write keeps the hash index only when every restart position is < MARKER_FREE")
    hw = one(calls(fn, r"hash_index::builder::Builder::write::<"), "hash index Builder::write call")
    bw = one(calls(fn, r"binary_index::builder::Builder::write::<"), "binary index Builder::write call")
    marker_free = _const_value("table/block/hash_index/mod.rs", "MARKER_FREE")
    # the binary index length: field .1 of the Continue payload of binary index write
    len_local = None
    for b in live_blocks(fn):
        for st in b.stmts:
            m = re.match(r"^(_\d+) = copy \((_\d+)\.1: usize\)$", st)
            if m:
                len_local = m.group(1)
    if not len_local:
        raise MirError("Trailer::write: binary index length local not found")
    guard_edges, guard_terms = [], []
    for b in live_blocks(fn):
        if b.kind != "switch":
            continue
        for st in b.stmts:
            m = re.match(r"^(_\d+) = (Le|Lt)\((?:copy|move) (_\d+), const (.*)\)$", st)
            if m and m.group(1) in b.args:
                x = m.group(3)
                lterm = None
                if x == len_local:
                    lterm = "len"
                else:
                    prod = [c2 for c2 in live_blocks(fn) if c2.kind == "call" and c2.dest == x]
                    if len(prod) == 1 and re.search(r"core::num::<impl usize>::(saturating_sub|wrapping_sub)$", prod[0].callee):
                        pa = [y.strip() for y in mir.split_top(prod[0].args)]
                        km = re.match(r"^const (\d+)_usize$", pa[1])
                        if RE_LOCAL.findall(pa[0]) == [len_local] and km:
                            k = int(km.group(1))
                            lterm = "(ite (bvuge len (_ bv%d 64)) (bvsub len (_ bv%d 64)) (_ bv0 64))" % (k, k) if "saturating" in prod[0].callee else "(bvsub len (_ bv%d 64))" % k
                if lterm is None:
                    continue
                c = m.group(4).strip()
                mm = re.match(r"^(\d+)_usize$", c)
                val = int(mm.group(1)) if mm else _const_value("table/block/hash_index/builder.rs", c.split("::")[-1])
                guard_terms.append("(%s %s (_ bv%d 64))" % ("bvule" if m.group(2) == "Le" else "bvult", lterm, val))
                t, f = bool_edges(fn, b, m.group(1))
                guard_edges.append(edge_block(fn, b.idx, t))
    # `u8::try_from(len).is_ok()` style guard
    for b in live_blocks(fn):
        if b.kind == "call" and re.search(r"<u8 as TryFrom<usize>>::try_from$", b.callee) and len_local in RE_LOCAL.findall(b.args or ""):
            isok = [c for c in live_blocks(fn) if c.kind == "call" and re.search(r"Result::<u8, [^>]*>::is_ok$", c.callee)]
            for c in isok:
                guard_terms.append("(bvule len (_ bv255 64))")
                guard_edges.append(true_edge(fn, c))
    if not guard_edges:
        raise MirError("Trailer::write: no recognisable guard on the binary index length before the hash index is written")
    import glue as _g
    smt = "(set-logic QF_BV)\n(declare-const len (_ BitVec 64))\n" + "".join("(assert %s)\n" % t for t in guard_terms) + \
          "(assert (bvugt len (_ bv%d 64)))\n(check-sat)\n(get-value (len))\n" % marker_free
    import bmc as _b
    v1, t1, m1 = _b.run_solver(smt.replace("(get-value (len))\n", ""), "z3", 60)
    v2, t2, _ = _b.run_solver(smt.replace("(get-value (len))\n", ""), "cvc5", 60)
    ok = v1 == "unsat" and v2 == "unsat"
    if v1 not in ("sat", "unsat") or v1 != v2:
        raise MirError("hash index guard: solvers answered %s / %s" % (v1, v2))
    a.glue = [("guard %s implies binary_index_len <= MARKER_FREE (%d): restart positions 0..len-1 stay below the FREE marker" % (" and ".join(guard_terms), marker_free),
               "proved" if ok else "refuted", t1 + t2)]
    a.var("guarded")
    a.event("edge:guard on the binary index length holds", guard_edges if ok else []).on("edge:guard on the binary index length holds", "guarded", True)
    a.event("call:hash index written", [hw.idx])
    a.require("call:hash index written", "{guarded}", "a block with %d or more restart intervals keeps its hash index: position %d collides with the FREE marker, point reads of keys in that interval answer 'absent'" % (marker_free + 1, marker_free))
    return [a]


SPECS["O12.7"] = [hash_index_guard]


# ---------------------------------------------------------------------------------------------
# C10 O10.8: a blob is returned only after its checksum (over key and payload) matched the stored one
# ---------------------------------------------------------------------------------------------

def blob_read_verifies(fns):
    fn = mir.find(fns, r"src/vlog/blob_file/reader\.rs[^>]*>::get\(")
    a = Automaton(fn, "O10.8 blob_file::Reader::get returns a value only after xxh3(key ++ payload) equalled the checksum stored in the blob header")
    dig = one(calls(fn, r"Xxh3::digest128$"), "Xxh3::digest128")
    rd = one(calls(fn, r"ReadBytesExt>::read_u128::<LittleEndian>$"), "read_u128 of the stored checksum")
    ups = calls(fn, r"Xxh3::update$")
    # the stored checksum local: Continue payload of read_u128's `?`
    rok, rerr, _ = ok_err(fn, rd, "read_u128")
    stored = None
    for st in fn.blocks[rok].stmts:
        m = re.match(r"^(_\d+) = (copy|move) \(\((_\d+) as Continue\)\.0: u128\)$", st)
        if m:
            stored = m.group(1)
    def copies_of(x):
        out, changed = {x}, True
        while changed:
            changed = False
            for bb in live_blocks(fn):
                for s2 in bb.stmts:
                    mm = re.match(r"^(_\d+) = (copy|move) (_\d+)$", s2)
                    if mm and mm.group(3) in out and mm.group(1) not in out:
                        out.add(mm.group(1))
                        changed = True
        return out
    stored_set = copies_of(stored) if stored else set()
    dig_set = copies_of(dig.dest)
    cmp_sw, eq_edge, ne_edge = None, None, None
    for b in live_blocks(fn):
        if b.kind != "switch":
            continue
        for st in b.stmts:
            m = re.match(r"^(_\d+) = (Ne|Eq)\(copy (_\d+), copy (_\d+)\)$", st)
            if m and m.group(1) in b.args and ((m.group(3) in stored_set and m.group(4) in dig_set) or (m.group(4) in stored_set and m.group(3) in dig_set)):
                t, f = bool_edges(fn, b, m.group(1))
                eq_edge = edge_block(fn, b.idx, f if m.group(2) == "Ne" else t)
                ne_edge = edge_block(fn, b.idx, t if m.group(2) == "Ne" else f)
                cmp_sw = b
    if cmp_sw is None:
        raise MirError("Reader::get: no comparison of the stored checksum with the computed digest found")
    # the digest covers the key and the payload slice of what was read
    uf = alias_classes(fn)
    fr = calls(fn, r"Slice::from_reader::<")
    sl = calls(fn, r"Slice::slice::<std::ops::RangeFrom<usize>>$")
    covered = set()
    for u in ups:
        arg = RE_LOCAL.findall(u.args)[-1]
        ch = _call_chain(fn, arg)
        src = [b for b in live_blocks(fn) if b.kind == "call" and b.dest == arg]
        # deref(&X): which X?
        for b in src:
            l = RE_LOCAL.search(b.args or "")
            d = [s2 for bb in live_blocks(fn) for s2 in bb.stmts if l and s2.startswith(l.group(0) + " = &")]
            base = RE_LOCAL.findall(d[0])[1] if d else None
            for f2 in fr:
                ok2, _, _ = ok_err(fn, f2, "from_reader")
                if any(re.match(r"^(_\d+) = move \(\(%s as Continue\)" % re.escape(x), s3) for x in [q.dest for q in live_blocks(fn) if q.kind == "call" and q.idx in [f2.succ[0]]] for s3 in fn.blocks[ok2].stmts) or True:
                    pass
            covered.add(base)
    key_local = None
    for f2 in fr:
        ok2, _, _ = ok_err(fn, f2, "from_reader")
        for st in fn.blocks[ok2].stmts:
            m = re.match(r"^(_\d+) = move (_\d+)$", st)
            if m:
                key_local = m.group(1)
    data_local = sl[0].dest if len(sl) == 1 else None
    covers_both = len(ups) >= 2 and key_local in covered and data_local in covered
    a.glue = [("digest covers the key read from the frame and the payload slice (found updates over %s)" % sorted(x for x in covered if x), "proved" if covers_both else "refuted", 0.0)]
    ok_ret, err_ret = ret_blocks(fn)
    a.var("verified").var("mismatch")
    a.event("ok:checksums equal", [eq_edge] if covers_both else []).on("ok:checksums equal", "verified", True)
    a.event("err:checksums differ", [ne_edge]).on("err:checksums differ", "mismatch", True)
    a.event("ret_ok", ok_ret).event("ret_err", err_ret)
    a.require("ret_ok", "{verified}", "a blob value is returned without its checksum having matched (or the digest does not cover key and payload)")
    a.require("ret_ok", "(not {mismatch})", "a blob value is returned although the checksum comparison failed")
    return [a]


SPECS["O10.8"] = [blob_read_verifies]


# ---------------------------------------------------------------------------------------------
# C08 O8.4: flush with key-value separation - values at or above the threshold go to the blob writer and are
# replaced by a pointer, smaller ones stay inline, tombstones never touch the blob writer
# ---------------------------------------------------------------------------------------------

def _reaches(fn, start, goal, stop):
    seen, todo = set(), [start]
    while todo:
        i = todo.pop()
        if i in seen or i in stop:
            continue
        seen.add(i)
        if i == goal:
            return True
        bb = fn.blocks[i]
        if not bb.cleanup:
            todo.extend(bb.succ)
    return False


def flush_separation(fns):
    fn = mir.find(fns, r"src/blob_tree/mod\.rs[^>]*>::flush_to_tables\(")
    a = Automaton(fn, "O8.4 BlobTree::flush_to_tables: a value of size >= separation_threshold is written to the blob file and replaced by an Indirection; others are written inline")
    nxt = one([b for b in calls(fn, r"as Iterator>::next$") if "InternalValue" in b.callee], "stream.next()")
    tomb = one(calls(fn, r"InternalValue::is_tombstone$"), "item.is_tombstone()")
    bw = one(calls(fn, r"blob_file::multi_writer::MultiWriter::write$"), "blob_writer.write")
    tws = calls(fn, r"table::multi_writer::MultiWriter::write$")
    reg = one(calls(fn, r"table::multi_writer::MultiWriter::register_blob$"), "register_blob")
    # the threshold comparison
    cmp_sw = None
    for b in live_blocks(fn):
        if b.kind != "switch":
            continue
        for st in b.stmts:
            m = re.match(r"^(_\d+) = (Ge|Gt|Le|Lt)\(copy (_\d+), copy (_\d+)\)$", st)
            if m and m.group(1) in b.args:
                cmp_sw = (b, m)
    if cmp_sw is None:
        raise MirError("flush_to_tables: threshold comparison not found")
    b, m = cmp_sw
    op, lhs, rhs = m.group(2), m.group(3), m.group(4)
    # lhs must be the value's length as u32, rhs the configured separation threshold
    ldefs = [s2 for bb in live_blocks(fn) for s2 in bb.stmts if s2.startswith(lhs + " = ")]
    rdefs = [s2 for bb in live_blocks(fn) for s2 in bb.stmts if s2.startswith(rhs + " = ")]
    len_ok = len(ldefs) == 1 and re.search(r"= move _\d+ as u32 \(IntToInt\)$", ldefs[0]) is not None and \
        any(re.match(r"^_\d+ = PtrMetadata\(", s2) or "Slice::len" in s2 for s2 in b.stmts + [x for bb in live_blocks(fn) for x in bb.stmts if x.startswith(RE_LOCAL.findall(ldefs[0])[1] + " = ")])
    names = struct_fields(SRC_ROOT, "src/config/mod.rs", "KvSeparationOptions")
    thr_ok = False
    if len(rdefs) == 1:
        mm = re.search(r"\.(\d+): u32\)$", rdefs[0])
        thr_ok = mm is not None and int(mm.group(1)) < len(names) and names[int(mm.group(1))] == "separation_threshold"
    ge_ok = op == "Ge"
    t_edge, f_edge = bool_edges(fn, b, m.group(1))
    sep_edge = edge_block(fn, b.idx, t_edge)
    inl_edge = edge_block(fn, b.idx, f_edge)
    # the pointer entry: ValueType::Indirection is stored into the key of what is written to the table
    ind_ok = any(re.search(r"\(\(_\d+\.0: key::InternalKey\)\.2: value_type::ValueType\) = move (_\d+)$", st) for bb in live_blocks(fn) for st in bb.stmts) and \
        any(re.match(r"^_\d+ = ValueType::Indirection$", st) for bb in live_blocks(fn) for st in bb.stmts)
    # which side of the comparison separates is decided by where the blob writer is called, not by the operator:
    # `>` instead of `>=` moves the boundary by one byte but keeps the tree readable (C08 is about invisibility)
    reach_t = _reaches(fn, t_edge, bw.idx, {nxt.idx})
    reach_f = _reaches(fn, f_edge, bw.idx, {nxt.idx})
    if reach_t == reach_f:
        raise MirError("flush_to_tables: cannot tell which side of the size comparison separates")
    if reach_f:
        sep_edge, inl_edge = inl_edge, sep_edge
    a.glue = [("the entry written for a separated value carries ValueType::Indirection", "proved" if ind_ok else "refuted", 0.0)]
    good = ind_ok
    tt, tf, tsw = call_bool_edges(fn, tomb)
    tomb_edge = edge_block(fn, tsw, tt)
    a.var("item").var("sep").var("blobbed").var("istomb").var("written")
    a.event("call:stream.next", [nxt.idx]).on("call:stream.next", "sep", False).on("call:stream.next", "blobbed", False).on("call:stream.next", "istomb", False).on("call:stream.next", "written", False)
    a.event("edge:item is a tombstone", [tomb_edge]).on("edge:item is a tombstone", "istomb", True)
    a.event("edge:size >= threshold", [sep_edge] if good else []).on("edge:size >= threshold", "sep", True)
    a.event("edge:size < threshold", [inl_edge])
    a.event("call:blob_writer.write", [bw.idx]).on("call:blob_writer.write", "blobbed", True)
    a.event("call:table_writer.write", [x.idx for x in tws]).on("call:table_writer.write", "written", True)
    a.event("call:register_blob", [reg.idx])
    a.require("call:blob_writer.write", "(and {sep} (not {istomb}))", "a tombstone (or an entry that is then written inline) is written to the blob file / the pointer entry is not typed Indirection")
    a.require("call:table_writer.write", "(=> {sep} {blobbed})", "a value at or above the separation threshold is written into the table without its blob having been written")
    a.require("call:register_blob", "(and {blobbed} {written})", "a blob reference is registered before the blob and its pointer were written")
    a.require("call:stream.next", "true", "")
    return [a]


SPECS["O8.4"] = [flush_separation]


# ---------------------------------------------------------------------------------------------
# C03 O3.7: every data block a table iterator opens is clamped by both range bounds before an item is taken from it
# ---------------------------------------------------------------------------------------------

def _clamp_spec(fns, sel, title, pull_re):
    fn = mir.find(fns, sel)
    a = Automaton(fn, title)
    mk = calls(fn, r"(^|::)create_data_block_reader$")
    if len(mk) != 1:
        raise MirError("%s: expected exactly one create_data_block_reader call, found %d" % (title[:20], len(mk)))
    mk = mk[0]
    rl = mk.dest
    refs = set()
    for b in live_blocks(fn):
        for st in b.stmts:
            m = re.match(r"^(_\d+) = &mut %s$" % re.escape(rl), st)
            if m:
                refs.add(m.group(1))

    def on_reader(b):
        return bool(set(RE_LOCAL.findall(b.args or "")) & refs)
    lo = [b for b in calls(fn, r"OwnedDataBlockIter::seek_lower_bound$") if on_reader(b)]
    hi = [b for b in calls(fn, r"OwnedDataBlockIter::seek_upper_bound$") if on_reader(b)]
    pulls = [b for b in calls(fn, pull_re) if on_reader(b)]
    if not pulls:
        raise MirError("no item is pulled from the freshly created block reader")

    def none_edges(seeks, what):
        out = []
        p = preds(fn)
        for sk in seeks:
            # the switch that guards the seek: walk back over single-predecessor blocks
            cur = sk.idx
            for _ in range(4):
                ps = [x for x in p.get(cur, ()) if not fn.blocks[x].cleanup]
                if len(ps) != 1:
                    break
                cur = ps[0]
                sw = fn.blocks[cur]
                if sw.kind == "switch" and any("discriminant(" in st for st in sw.stmts):
                    for v, t in list(sw.switch):
                        if v == "0":
                            out.append(edge_block(fn, sw.idx, t))
                    break
        if seeks and not out:
            raise MirError("%s: the Option test guarding the seek was not found" % what)
        return out
    lo_none, hi_none = none_edges(lo, "lower bound"), none_edges(hi, "upper bound")
    a.var("lo").var("hi")
    a.event("call:create_data_block_reader", [mk.idx]).on("call:create_data_block_reader", "lo", False).on("call:create_data_block_reader", "hi", False)
    a.event("call:seek_lower_bound", [b.idx for b in lo]).on("call:seek_lower_bound", "lo", True)
    a.event("edge:no lower bound", lo_none).on("edge:no lower bound", "lo", True)
    a.event("call:seek_upper_bound", [b.idx for b in hi]).on("call:seek_upper_bound", "hi", True)
    a.event("edge:no upper bound", hi_none).on("edge:no upper bound", "hi", True)
    a.event("call:first item taken from the new block", [b.idx for b in pulls])
    a.require("call:first item taken from the new block", "(and {lo} {hi})",
              "an item is taken from a freshly opened data block that was not clamped by the range's lower and upper bound: entries outside the bounds (or shadowed versions of a bound key that straddles blocks) are yielded")
    return a


def block_clamping(fns):
    return [_clamp_spec(fns, r"src/table/iter\.rs[^>]*>::next\(_1: &mut table::iter::Iter\)", "O3.7a table::Iter::next clamps every block it opens by both bounds before taking an item",
                        r"<OwnedDataBlockIter as Iterator>::next$"),
            _clamp_spec(fns, r"src/table/iter\.rs[^>]*>::next_back\(_1: &mut table::iter::Iter\)", "O3.7b table::Iter::next_back clamps every block it opens by both bounds before taking an item",
                        r"<OwnedDataBlockIter as DoubleEndedIterator>::next_back$")]


SPECS["O3.7"] = [block_clamping]


# ---------------------------------------------------------------------------------------------
# C05 O5.4: a new version never re-uses the id of the version it replaces (its file would be rewritten in place)
# ---------------------------------------------------------------------------------------------

def fresh_version_ids(fns):
    """persist_version writes `v{id}`; `current` names the live version's file. If a version builder produced a version
    with the id of its predecessor, the live file would be truncated and rewritten before `current` switches: a
    crash in between leaves `current` pointing at a torn file. Every builder must produce id = old id + 1."""
    out = []
    names = struct_fields(SRC_ROOT, "src/version/mod.rs", "VersionInner")
    if not names or names[0] != "id":
        raise MirError("VersionInner.id is not field 0: %s" % names)
    for nm in ("with_new_l0_run", "with_dropped", "with_merge", "with_moved"):
        fn = mir.find(fns, r"src/version/mod\.rs[^>]*>::%s\(" % nm)
        a = Automaton(fn, "O5.4 Version::%s gives the new version the id old + 1" % nm)
        ctx = glue.Ctx(fn)
        aggs = [(b, st) for b in live_blocks(fn) for st in b.stmts if re.search(r"= VersionInner \{ id: (copy|move) (_\d+),", st)]
        if len(aggs) != 1:
            raise MirError("%s: expected one VersionInner aggregate, found %d" % (nm, len(aggs)))
        b, st = aggs[0]
        idl = re.search(r"VersionInner \{ id: (copy|move) (_\d+),", st).group(2)
        t, w = glue.term(ctx, idl)
        # the old id is the free variable that stands for field .0 of *self
        frees = [v for (n, ww), v in ctx.free.items() if ww == 64]
        ok = False
        for fv in frees:
            v = glue.equal_for_all(ctx, t, "(bvadd %s (_ bv1 64))" % fv)
            if v[0] == "proved" and re.search(r"_0__u64|\.0_", fv.replace(" ", "")) is not None or (v[0] == "proved" and "0" in fv):
                ok = True
        a.glue = [("new id == (self.id) + 1 as 64-bit terms", "proved" if ok else "refuted", 0.0)]
        a.var("x")
        a.event("stmt:VersionInner built with an id that is not old + 1", [] if ok else [b.idx])
        a.require("stmt:VersionInner built with an id that is not old + 1", "false", "Version::%s re-uses / mis-computes the version id: persist_version would rewrite the live version file in place (torn on a crash) or collide with another version file" % nm)
        out.append(a)
    return out


SPECS["O5.4"] = [fresh_version_ids, xspecs.clear_version_ids]


# ---------------------------------------------------------------------------------------------
# C02 O2.3d: version changes are stamped through upgrade_version (fresh seqno), never with a seqno of the caller's choosing
# ---------------------------------------------------------------------------------------------

def version_stamp_census(fns):
    """A snapshot S resolves to the newest super version with seqno < S. That keeps a held snapshot on the version it
    was taken on only if every later version change carries a seqno drawn *after* the snapshot - `upgrade_version`
    does that (O2.3b). `upgrade_version_with_seqno` lets the caller choose; only bulk ingestion may (it publishes at
    the global seqno it drew for its tables, decided by O14.2)."""
    allowed = [r"super_version\.rs[^>]*>::upgrade_version$", r"src/(blob_)?tree/ingest\.rs[^>]*>::finish$"]
    publishers = r"register_tables|flavour\.rs[^>]*>::finish|(^|::)drop_tables|move_tables|::clear$|::clear::|merge_tables|do_compaction|rotate_memtable|::flush"
    out, users = [], []
    for f in fns:
        if getattr(f, "skip", False) or "tests::" in f.name or "::tests" in f.name:
            continue
        cs = [b for b in f.blocks.values() if not b.cleanup and b.kind == "call" and re.search(r"SuperVersions::upgrade_version_with_seqno::<", b.callee)]
        if cs:
            users.append((f, cs))
    if not any(re.search(allowed[0], f.name) for f, _ in users):
        raise MirError("upgrade_version no longer goes through upgrade_version_with_seqno (pattern drift)")
    for f, cs in users:
        ok = any(re.search(rx, f.name) for rx in allowed)
        if not ok and not re.search(publishers, f.name):
            raise MirError("upgrade_version_with_seqno is called by %s, which is neither bulk ingestion nor a known publisher - cannot be judged" % f.name[-70:])
        a = Automaton(f, "O2.3d %s may choose the seqno of its version change" % f.name[-60:])
        a.glue = [("caller is upgrade_version itself or bulk ingestion's finish", "proved" if ok else "refuted", 0.0)]
        a.var("x")
        a.event("call:upgrade_version_with_seqno by a publisher that must draw a fresh seqno", [] if ok else [cs[0].idx])
        a.require("call:upgrade_version_with_seqno by a publisher that must draw a fresh seqno", "false",
                  "%s publishes its version change with a seqno of its own choosing instead of a fresh one: a snapshot taken before the change can resolve to the new version (and miss what the change garbage-collected)" % f.name.split("::")[-1])
        out.append(a)
    return out


SPECS["O2.3d"] = [version_stamp_census]


# ---------------------------------------------------------------------------------------------
# C20 O20.6: blob file recovery always scans the blobs folder (orphans are only found by listing it)
# ---------------------------------------------------------------------------------------------

def recovery_scans_folder(fns):
    fn = mir.find(fns, r"^fn (vlog::)?recover_blob_files\(")
    a = Automaton(fn, "O20.6 vlog::recover_blob_files lists the blobs folder before it returns Ok (unless the folder does not exist)")
    te = one(calls(fn, r"Path::try_exists$"), "folder.try_exists()")
    rd = calls(fn, r"(^|::)read_dir::<")
    if not rd:
        raise MirError("recover_blob_files: no read_dir call")
    tok, terr, _ = ok_err(fn, te, "try_exists")
    # the bool carried by Continue: its false edge = folder absent
    sw = fn.blocks[tok]
    absent = None
    if sw.kind == "switch":
        for st in sw.stmts:
            m = re.match(r"^(_\d+) = copy \(\((_\d+) as Continue\)\.0: bool\)$", st)
            if m and m.group(1) in sw.args:
                t, f = bool_edges(fn, sw, m.group(1))
                absent = edge_block(fn, sw.idx, f)
    if absent is None:
        # negated / combined condition: find the switch on the Continue bool anywhere after
        for b in live_blocks(fn):
            if b.kind == "switch":
                for st in b.stmts:
                    m = re.match(r"^(_\d+) = copy \(\((_\d+) as Continue\)\.0: bool\)$", st)
                    if m and m.group(1) in b.args:
                        t, f = bool_edges(fn, b, m.group(1))
                        absent = edge_block(fn, b.idx, f)
    if absent is None:
        raise MirError("recover_blob_files: the test of try_exists' result was not found")
    ok_ret, err_ret = ret_blocks(fn)
    a.var("scanned").var("absent")
    a.event("call:read_dir(blobs folder)", [b.idx for b in rd]).on("call:read_dir(blobs folder)", "scanned", True)
    a.event("edge:folder does not exist", [absent]).on("edge:folder does not exist", "absent", True)
    a.event("ret_ok", ok_ret)
    a.require("ret_ok", "(or {scanned} {absent})", "recover_blob_files returns Ok without listing an existing blobs folder: blob files the recovered version does not name (left by a crash, or dead since the last version) are never found and never deleted")
    return [a]


SPECS["O20.6"] = [recovery_scans_folder]


# ---------------------------------------------------------------------------------------------
# C20 O20.7: after a reopen every version file other than the current one is deleted
# ---------------------------------------------------------------------------------------------

def orphan_versions_removed(fns):
    fn = mir.find(fns, r"src/tree/mod\.rs[^>]*>::cleanup_orphaned_version\(")
    a = Automaton(fn, "O20.7 cleanup_orphaned_version removes every `v*` file whose name differs from the current version's")
    nxt = one(calls(fn, r"<ReadDir as Iterator>::next$"), "read_dir iteration")
    sw = one(calls(fn, r"core::str::<impl str>::starts_with::<char>$"), "name.starts_with('v')")
    rm = one(calls(fn, r"(^|::)remove_file::<"), "remove_file")
    cmpc = calls(fn, r"as PartialEq<[^>]*>>::(ne|eq)$")
    ordc = [b for b in live_blocks(fn) if (b.kind == "call" and re.search(r"as PartialOrd(<[^>]*>)?>::(lt|le|gt|ge)$|::cmp$", b.callee)) or
            any(re.match(r"^_\d+ = (Lt|Le|Gt|Ge)\(", st) for st in b.stmts)]
    if len(cmpc) != 1:
        if ordc:
            a.glue = [("the file name is compared for (in)equality with the current version's name", "refuted", 0.0)]
            a.var("x")
            a.event("call:remove_file guarded by an ordering test", [rm.idx])
            a.require("call:remove_file guarded by an ordering test", "false", "only version files ordered before / after the current one are removed: a leftover version file on the other side survives every reopen")
            return [a]
        raise MirError("cleanup_orphaned_version: comparison with the current version's name not found")
    c = cmpc[0]
    differs = true_edge(fn, c) if c.callee.endswith("::ne") else false_edge(fn, c)
    vfile = true_edge(fn, sw)
    a.var("vfile").var("differs").var("removed")
    a.event("call:next entry", [nxt.idx]).on("call:next entry", "vfile", False).on("call:next entry", "differs", False).on("call:next entry", "removed", False)
    a.event("edge:name starts with 'v'", [vfile]).on("edge:name starts with 'v'", "vfile", True)
    a.event("edge:name != current version file", [differs]).on("edge:name != current version file", "differs", True)
    a.event("call:remove_file", [rm.idx]).on("call:remove_file", "removed", True)
    ok_ret, err_ret = ret_blocks(fn)
    a.require("call:next entry", "(=> (and {vfile} {differs}) {removed})", "a version file other than the current one is left in the directory")
    a.require("call:remove_file", "(and {vfile} {differs})", "a file that is not an orphaned version file (e.g. the current version) is removed")
    return [a]


SPECS["O20.7"] = [orphan_versions_removed]


def recover_levels_scans(fns):
    """O20.6b: recover_levels always lists the tables folder, consults recover_blob_files, and removes orphaned version files
    before it returns Ok."""
    fn = mir.find(fns, r"src/tree/mod\.rs[^>]*>::recover_levels\(")
    a = Automaton(fn, "O20.6b recover_levels lists the tables folder, recovers / scans blob files and removes orphaned version files on every Ok path")
    rd = calls(fn, r"(^|::)read_dir::<")
    rb = calls(fn, r"(^|::)recover_blob_files$")
    co = calls(fn, r"Tree::cleanup_orphaned_version$")
    if not rd or not rb or not co:
        raise MirError("recover_levels: read_dir / recover_blob_files / cleanup_orphaned_version not all present (%d/%d/%d)" % (len(rd), len(rb), len(co)))
    ok_ret, err_ret = ret_blocks(fn)
    a.var("tables").var("blobs").var("versions")
    a.event("call:read_dir(tables folder)", [b.idx for b in rd]).on("call:read_dir(tables folder)", "tables", True)
    a.event("call:recover_blob_files", [b.idx for b in rb]).on("call:recover_blob_files", "blobs", True)
    a.event("call:cleanup_orphaned_version", [b.idx for b in co]).on("call:cleanup_orphaned_version", "versions", True)
    a.event("ret_ok", ok_ret)
    a.require("ret_ok", "(and {tables} {blobs} {versions})", "recover_levels returns Ok without having listed the tables folder / scanned the blob files / removed orphaned version files: files the recovered version does not name survive the reopen")
    return [a]


SPECS["O20.6"] = [recovery_scans_folder, recover_levels_scans]


# ---------------------------------------------------------------------------------------------
# C09 / C08 / C20 O9.6: a blob file is "dead" only on exact integer equality of stale and total bytes
# ---------------------------------------------------------------------------------------------

def is_dead_exact(fns):
    fn = mir.find(fns, r"src/vlog/blob_file/mod\.rs[^>]*>::is_dead\(")
    a = Automaton(fn, "O9.6 BlobFile::is_dead: stale bytes == total bytes and stale blobs == blob count, exactly (no rounding, no 0 == 0 for empty values)")
    fnames = struct_fields(SRC_ROOT, "src/blob_tree/gc.rs", "FragmentationEntry")
    mnames = struct_fields(SRC_ROOT, "src/vlog/blob_file/meta.rs", "Metadata")
    ok, why = False, "shape not recognised"
    body = fn
    cl = [b for b in live_blocks(fn) if b.kind == "call" and re.search(r"is_some_and::<", b.callee)]
    floats = []
    scope = [fn] + [cf for b in cl for cf in closure_fns(fns, b)]
    for f in scope:
        for b in live_blocks(f):
            for st in b.stmts:
                if re.search(r"as f(32|64) \(IntToFloat\)|: f(32|64)", st) or re.search(r"= (Div|Mul)\(", st):
                    floats.append(st)
            if b.kind == "call" and re.search(r"BlobFile::is_stale$|f32|f64", b.callee):
                floats.append(b.callee)
    eqs = []
    for f in scope:
        defs = {}
        for bb in live_blocks(f):
            for s2 in bb.stmts:
                mm = re.match(r"^(_\d+) = (?:copy|move) (.*?)(?: as u64 \(IntToInt\))?$", s2)
                if mm:
                    defs[mm.group(1)] = mm.group(2)

        def origin(x):
            for _ in range(4):
                d = defs.get(x)
                if d is None:
                    return ""
                if re.fullmatch(r"_\d+", d):
                    x = d
                    continue
                return d
            return ""
        for bb in live_blocks(f):
            for st in bb.stmts:
                m = re.match(r"^_\d+ = Eq\((?:copy|move) (_\d+), (?:copy|move) (_\d+)\)$", st)
                if not m:
                    continue
                d1, d2 = origin(m.group(1)), origin(m.group(2))
                f1 = re.search(r"^\(\(\*_\d+\)\.(\d+): (u64|usize)\)$", d1)
                f2 = re.search(r"Metadata\)\.(\d+): u64\)$", d2)
                if not (f1 and f2):
                    f1, f2 = re.search(r"^\(\(\*_\d+\)\.(\d+): (u64|usize)\)$", d2), re.search(r"Metadata\)\.(\d+): u64\)$", d1)
                if f1 and f2:
                    eqs.append((fnames[int(f1.group(1))], mnames[int(f2.group(1))]))
    need = {("bytes", "total_uncompressed_bytes"), ("len", "item_count")}
    if floats:
        ok, why = False, "deadness goes through floating point / a ratio: %s" % floats[0][:80]
    elif set(eqs) == need:
        ok, why = True, "entry.bytes == meta.total_uncompressed_bytes && entry.len == meta.item_count"
    elif not eqs:
        raise MirError("is_dead: neither an integer equality nor a float computation found")
    elif set(eqs) == {("bytes", "total_uncompressed_bytes")}:
        ok, why = False, "deadness is decided by bytes alone: with empty values (separation threshold 0) 0 stale bytes == 0 total bytes while live blobs remain"
    else:
        ok, why = False, "compares %s" % sorted(set(eqs))
    a.glue = [("is_dead(frag) = exact u64 equalities of stale bytes and stale blob count with the file's totals (%s)" % why, "proved" if ok else "refuted", 0.0)]
    a.var("x")
    a.event("ret:deadness not decided by exact equality", [] if ok else [b.idx for b in live_blocks(fn) if b.kind == "return"])
    a.require("ret:deadness not decided by exact equality", "false", "a blob file can be declared dead (dropped from the version and deleted) while a few of its bytes are still referenced: %s" % why)
    return [a]


SPECS["O9.6"] = [is_dead_exact]


# ---------------------------------------------------------------------------------------------
# C01 / C07 O1.7: a run that enters a level is placed in front of the runs already there
# ---------------------------------------------------------------------------------------------

def run_placement(fns):
    out = []
    for nm in ("with_merge", "with_moved"):
        fn = mir.find(fns, r"src/version/mod\.rs[^>]*>::%s\(" % nm)
        a = Automaton(fn, "O1.7 Version::%s puts the new run in front of the destination level's runs" % nm)
        rn = one(calls(fn, r"Run::<Table>::new$"), "Run::new of the incoming tables")
        ins = calls(fn, r"Vec::<Run<Table>>::insert$")
        psh = calls(fn, r"Vec::<Run<Table>>::push$")
        front = [b for b in ins if re.match(r"^const 0_usize$", [x.strip() for x in mir.split_top(b.args)][1])]
        ok = len(front) == 1 and not psh and len(ins) == 1
        if not ins and not psh:
            raise MirError("%s: the new run is neither inserted nor pushed into a Vec<Run<Table>>" % nm)
        a.glue = [("runs.insert(0, new_run) and no other placement (insert calls: %d, push calls: %d)" % (len(ins), len(psh)), "proved" if ok else "refuted", 0.0)]
        a.var("x")
        a.event("call:new run placed behind older runs", [] if ok else [b.idx for b in (psh or ins)])
        a.require("call:new run placed behind older runs", "false", "Version::%s does not place the incoming (newer) run at index 0 of the destination level: point reads take the first hit per level and return the older version" % nm)
        out.append(a)
    fn = mir.find(fns, r"src/version/mod\.rs[^>]*>::with_new_l0_run\(")
    a = Automaton(fn, "O1.7 Version::with_new_l0_run puts the flushed run in front of the existing L0 runs")
    psh = calls(fn, r"Vec::<Run<Table>>::push$")
    ext = calls(fn, r"<Vec<Run<Table>> as Extend<Run<Table>>>::extend::<")
    if len(psh) != 1 or len(ext) != 1:
        raise MirError("with_new_l0_run: expected one push (new run) and one extend (previous runs), found %d / %d" % (len(psh), len(ext)))
    a.var("extended")
    a.event("call:extend(previous runs)", [ext[0].idx]).on("call:extend(previous runs)", "extended", True)
    a.event("call:push(new run)", [psh[0].idx])
    a.require("call:push(new run)", "(not {extended})", "the flushed run is appended after the previous L0 runs: older data shadows newer data in L0")
    out.append(a)
    return out


SPECS["O1.7"] = [run_placement]


# ---------------------------------------------------------------------------------------------
# C17 / C08 O17.4: blob files written by the compaction filter join the new version
# ---------------------------------------------------------------------------------------------

def filter_blob_files_registered(fns):
    out = []
    for sel, nm in ((r"flavour\.rs:166[^>]*>::finish\(", "RelocatingCompaction"), (r"flavour\.rs:373[^>]*>::finish\(", "StandardCompaction")):
        cands = [f for f in fns if re.search(r"src/compaction/flavour\.rs[^>]*>::finish\(", f.header) and nm in f.params and not f.closure_span()]
        if len(cands) != 1:
            raise MirError("%s::finish not found" % nm)
        fn = cands[0]
        a = Automaton(fn, "O17.4 %s::finish hands the blob files written by the compaction filter to with_merge as *new* blob files" % nm)
        extra = fn.debug.get("extra_blob_files")
        if not extra:
            raise MirError("%s::finish: parameter extra_blob_files not found" % nm)
        up = one(calls(fn, r"SuperVersions::upgrade_version::<"), "upgrade_version")
        cfs = closure_fns(fns, up)
        if len(cfs) != 1:
            raise MirError("%s::finish: closure of upgrade_version not found" % nm)
        cf = cfs[0]
        wm = one(calls(cf, r"Version::with_merge$"), "with_merge in the closure")
        args = [x.strip() for x in mir.split_top(wm.args)]
        if len(args) != 7:
            raise MirError("with_merge takes %d arguments" % len(args))

        def cap_of(arg):
            """index of the closure capture an argument of with_merge is (a move / borrow / clone of)"""
            l = RE_LOCAL.search(arg)
            seen = set()
            cur = l.group(0) if l else None
            for _ in range(6):
                if cur is None or cur in seen:
                    return None
                seen.add(cur)
                d = [st for bb in live_blocks(cf) for st in bb.stmts if st.startswith(cur + " = ")]
                if len(d) == 1:
                    m = re.search(r"\(\*?\(?_1\.(\d+):", d[0]) or re.search(r"\(_1\.(\d+):", d[0])
                    if m:
                        return int(m.group(1))
                    l2 = RE_LOCAL.findall(d[0].split(" = ", 1)[1])
                    cur = l2[0] if l2 else None
                    continue
                prod = [bb for bb in live_blocks(cf) if bb.kind == "call" and bb.dest == cur]
                if len(prod) == 1:
                    l2 = RE_LOCAL.findall(prod[0].args or "")
                    cur = l2[0] if l2 else None
                    continue
                return None
            return None
        new_cap, drop_cap = cap_of(args[5]), cap_of(args[6])
        # which locals of finish fill those captures?
        agg = [st for b in live_blocks(fn) for st in b.stmts if re.search(r"= \{closure@[^}]+\} \{", st) and cf.closure_span() in st]
        if len(agg) != 1:
            raise MirError("%s::finish: closure aggregate not found" % nm)
        caps = [x.strip() for x in mir.split_top(re.search(r"\} \{ (.*) \}$", agg[0]).group(1))]

        def finish_local(idx):
            if idx is None or idx >= len(caps):
                return set()
            l = RE_LOCAL.search(caps[idx].split(": ", 1)[1])
            cur = l.group(0) if l else None
            chain = {cur} if cur else set()
            for _ in range(4):  # through `_x = &_y` / moves
                d = [st for b in live_blocks(fn) for st in b.stmts if cur and st.startswith(cur + " = ")]
                if len(d) == 1 and re.match(r"^_\d+ = (&|&mut |move |copy )(_\d+)$", d[0]):
                    cur = RE_LOCAL.findall(d[0])[1]
                    chain.add(cur)
                else:
                    break
            return chain
        new_local, drop_local = finish_local(new_cap), finish_local(drop_cap)
        # does `extra_blob_files` flow into new_local (directly, or by extend) - and not into drop_local?
        def flows_into(target):
            if not target:
                return False
            if extra in target:
                return True
            for b in calls(fn, r"<Vec<BlobFile> as Extend<BlobFile>>::extend::<"):
                aa = [x.strip() for x in mir.split_top(b.args)]
                dst = RE_LOCAL.search(aa[0]).group(0)
                dd = [st for bb in live_blocks(fn) for st in bb.stmts if st.startswith(dst + " = &mut ")]
                base = RE_LOCAL.findall(dd[0])[1] if dd else dst
                src = RE_LOCAL.search(aa[1]).group(0)
                sd = [st for bb in live_blocks(fn) for st in bb.stmts if st.startswith(src + " = ")]
                srcb = RE_LOCAL.findall(sd[0])[1] if sd and re.match(r"^_\d+ = (move|copy) _\d+$", sd[0]) else src
                if base in target and srcb == extra:
                    return True
            return False
        into_new, into_drop = flows_into(new_local), flows_into(drop_local)
        ok = into_new and not into_drop
        a.glue = [("extra_blob_files reaches with_merge's new_blob_files argument (capture #%s, local %s): %s; reaches blob_files_to_drop: %s" % (new_cap, new_local, into_new, into_drop),
                   "proved" if ok else "refuted", 0.0)]
        a.var("x")
        a.event("call:upgrade_version without the filter's blob files as new blob files", [] if ok else [up.idx])
        a.require("call:upgrade_version without the filter's blob files as new blob files", "false",
                  "%s::finish does not register the blob files the compaction filter wrote (or schedules them for dropping): a replaced value above the separation threshold points into a blob file the version does not know" % nm)
        out.append(a)
    return out


SPECS["O17.4"] = [filter_blob_files_registered]


# ---------------------------------------------------------------------------------------------
# C09 O9.7: whoever extends an existing fragmentation entry extends all three of its counters
# ---------------------------------------------------------------------------------------------

def fragmentation_entry_updates(fns):
    names = struct_fields(SRC_ROOT, "src/blob_tree/gc.rs", "FragmentationEntry")
    if names != ["len", "bytes", "on_disk_bytes"]:
        raise MirError("FragmentationEntry fields changed: %s" % names)
    out = []
    for f in fns:
        if getattr(f, "skip", False) or not f.closure_span() or "tests" in f.name:
            continue
        if not re.search(r"_2: &mut (blob_tree::gc::)?FragmentationEntry\)", f.header) or re.search(r"-> bool", f.header):
            continue
        added = set()
        for b in live_blocks(f):
            for st in b.stmts:
                m = re.match(r"^\(\(\*_2\)\.(\d+): (u64|usize)\) = move \((_\d+)\.0: (u64|usize)\)$", st)
                if m:
                    src = [s2 for bb in live_blocks(f) for s2 in bb.stmts if s2.startswith(m.group(3) + " = AddWithOverflow(copy ((*_2).%s:" % m.group(1))]
                    if src:
                        added.add(names[int(m.group(1))])
        if not added:
            continue
        ok = added == set(names)
        a = Automaton(f, "O9.7 %s adds to len, bytes and on_disk_bytes of the fragmentation entry it extends" % re.sub(r"<impl at (src/[^:]+):[^>]*>", r"\1", f.name)[-70:])
        a.glue = [("fields increased: %s" % sorted(added), "proved" if ok else "refuted", 0.0)]
        a.var("x")
        a.event("ret:a counter of the entry is not increased", [] if ok else [b.idx for b in live_blocks(f) if b.kind == "return"])
        a.require("ret:a counter of the entry is not increased", "false", "an existing fragmentation entry is extended without %s: the garbage statistics (stale_blob_bytes sums on_disk_bytes; is_dead compares bytes and len) drift from what the tables no longer reference" % sorted(set(names) - added))
        out.append(a)
    if len(out) < 3:
        raise MirError("expected at least three closures that extend a FragmentationEntry (merge_into, on_dropped, with_dropped), found %d" % len(out))
    return out


SPECS["O9.7"] = [fragmentation_entry_updates]


# ---------------------------------------------------------------------------------------------
# C02 / C03 O2.7: every source a range scan merges is filtered by the snapshot's seqno
# ---------------------------------------------------------------------------------------------

def range_sources_filtered(fns):
    cands = [f for f in fns if f.closure_span() and re.search(r"src/range\.rs", f.closure_span()) and re.search(r"create_range::\{closure#0\}\(", f.header)]
    if len(cands) != 1:
        raise MirError("create_range's source-building closure not found (%d candidates)" % len(cands))
    fn = cands[0]
    a = Automaton(fn, "O2.7 TreeIter::create_range: every iterator pushed into the merge is wrapped in a filter that applies seqno_filter")
    pushes = [b for b in live_blocks(fn) if b.kind == "call" and re.search(r"Vec::<Box<dyn DoubleEndedIterator<Item = .*>>::push$", b.callee)]
    if len(pushes) < 3:
        raise MirError("create_range: expected at least three sources (tables, sealed memtables, active memtable), found %d pushes" % len(pushes))
    # closures that call seqno_filter
    sf_spans, unknown_spans = set(), set()
    for f in fns:
        if f.closure_span() and "src/range.rs" in f.closure_span() and re.search(r"-> bool", f.header):
            if any(b.kind == "call" and re.search(r"(^|::)seqno_filter$", b.callee) for b in live_blocks(f)):
                sf_spans.add(f.closure_span())
            elif any(re.match(r"^_\d+ = Lt\(", st) for b in live_blocks(f) for st in b.stmts) and \
                    not any(re.match(r"^_\d+ = (Le|Ge|Gt)\(", st) for b in live_blocks(f) for st in b.stmts):
                sf_spans.add(f.closure_span())  # the same test written inline: item seqno < snapshot seqno
            elif not any(re.match(r"^_\d+ = (Le|Ge|Gt|Lt|Eq|Ne)\(", st) for b in live_blocks(f) for st in b.stmts):
                unknown_spans.add(f.closure_span())
    if not sf_spans:
        raise MirError("no closure in range.rs calls seqno_filter")
    def chain_of(x, depth=14):
        out = []
        for _ in range(depth):
            d = [st for b in live_blocks(fn) for st in b.stmts if st.startswith(x + " = ")]
            if len(d) == 1:
                m = re.match(r"^_\d+ = (?:move|copy) (_\d+)( as .*)?$", d[0])
                if m:
                    x = m.group(1)
                    continue
                return out
            prod = [b for b in live_blocks(fn) if b.kind == "call" and b.dest == x]
            if len(prod) != 1:
                return out
            out.append(prod[0].callee)
            l = RE_LOCAL.search(prod[0].args or "")
            if not l:
                return out
            x = l.group(0)
        return out
    bad = []
    for pb in pushes:
        arg = RE_LOCAL.findall(pb.args)[-1]
        ch = chain_of(arg)
        ok = any("as Iterator>::filter::<" in c and any(sp in c for sp in sf_spans) for c in ch)
        if not ok and any("as Iterator>::filter::<" in c and any(sp in c for sp in unknown_spans) for c in ch):
            raise MirError("create_range: a source is filtered by a predicate that is neither seqno_filter nor a plain seqno comparison - cannot be judged")
        if not ok:
            bad.append(pb)
    a.glue = [("%d sources pushed, %d of them behind a seqno_filter filter" % (len(pushes), len(pushes) - len(bad)), "proved" if not bad else "refuted", 0.0)]
    a.var("x")
    a.event("call:push(unfiltered source)", [b.idx for b in bad])
    a.require("call:push(unfiltered source)", "false", "a source of the range scan (tables of a run, a sealed memtable, the active memtable or the ephemeral memtable) is merged without the snapshot's seqno filter: the scan yields versions written after the snapshot")
    return [a]


SPECS["O2.7"] = [range_sources_filtered]

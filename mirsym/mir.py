"""Parser for rustc's `-Zunpretty=mir` text dump (pinned nightly) -> per-function CFGs.

Fails closed: anything it does not recognise inside a function it is asked about raises MirError,
which the driver reports as inconclusive (never as a pass, never as a violation).
"""
import re


class MirError(Exception):
    pass


RE_FN = re.compile(r"^fn (.+?)\((.*)\) -> (.+) \{$")
RE_FN_NORET = re.compile(r"^fn (.+?)\((.*)\) \{$")
RE_BB = re.compile(r"^    bb(\d+)( \(cleanup\))?: \{$")
RE_TARGETS = re.compile(r"-> \[(.*)\];?$")
RE_CALL = re.compile(r"^(?:(\S.*?) = )?(.+?)\((.*)\) -> (\[.*\]|bb\d+);?$")


class Block:
    __slots__ = ("idx", "cleanup", "stmts", "term", "kind", "succ", "callee", "args", "dest", "unwind", "switch")

    def __init__(self, idx, cleanup):
        self.idx, self.cleanup = idx, cleanup
        self.stmts, self.term = [], None
        self.kind, self.succ, self.callee, self.args, self.dest = None, [], None, None, None


class Function:
    def __init__(self, name, params, ret, header, line_no):
        self.name, self.params, self.ret, self.header, self.line_no = name, params, ret, header, line_no
        self.blocks = {}
        self.locals = {}  # _n -> type text
        self.debug = {}  # source name -> _n
        self.raw_lines = 0

    def closure_span(self):
        m = re.search(r"\{closure@([^}]+)\}", self.params)
        return m.group(1) if m else None


def split_top(s, sep=","):
    """split on sep at nesting depth 0 of () [] {} <>"""
    out, depth, cur = [], 0, ""
    i = 0
    while i < len(s):
        c = s[i]
        if c in "([{<":
            depth += 1
        elif c in ")]}":
            depth -= 1
        elif c == ">" and i > 0 and s[i - 1] not in "-=":
            depth -= 1
        if c == sep and depth == 0:
            out.append(cur.strip())
            cur = ""
        else:
            cur += c
        i += 1
    if cur.strip():
        out.append(cur.strip())
    return out


def parse_terminator(b, t):
    """fills b.kind / succ / callee / args / dest from terminator text t"""
    t = t.rstrip(";")
    b.term = t
    if t == "return":
        b.kind = "return"
    elif t in ("unreachable", "resume", "abort", "terminate(cleanup)", "unwind resume", "unwind terminate(cleanup)") \
            or t.startswith("resume") or t.startswith("terminate"):
        b.kind = "dead"
    elif t.startswith("goto -> "):
        b.kind = "goto"
        b.succ = [int(t[len("goto -> bb"):])]
    elif t.startswith("switchInt("):
        b.kind = "switch"
        m = RE_TARGETS.search(t)
        if not m:
            raise MirError("switchInt without targets: " + t)
        b.args = t[len("switchInt("):t.index(") -> [")]
        b.succ = []
        b.switch = []
        for part in m.group(1).split(", "):
            v, tgt = part.split(": ")
            b.switch.append((v, int(tgt[2:])))
            b.succ.append(int(tgt[2:]))
    elif t.startswith("drop("):
        b.kind = "drop"
        b.args = t[5:t.index(") -> ")]
        m = re.search(r"return: bb(\d+)", t)
        if not m:
            raise MirError("drop without return target: " + t)
        b.succ = [int(m.group(1))]
    elif t.startswith("assert("):
        b.kind = "assert"
        m = re.search(r"success: bb(\d+)", t)
        if not m:
            raise MirError("assert without success target: " + t)
        b.succ = [int(m.group(1))]
    elif t.startswith("falseEdge") or t.startswith("falseUnwind"):
        b.kind = "goto"
        m = re.search(r"real: bb(\d+)", t)
        b.succ = [int(m.group(1))]
    else:
        # call:  [dest = ] callee(args) -> [return: bbN, unwind ...]   |  diverging call: -> unwind ...
        m = re.match(r"^(?:(.+?) = )?(.+)\((.*)\) -> (.*)$", t)
        if not m:
            raise MirError("unrecognised terminator: " + t)
        b.kind = "call"
        b.dest, b.callee, b.args = m.group(1), m.group(2), m.group(3)
        # the greedy match above may split inside the callee's generic args; re-split at the last top-level '('
        full = t[:t.rindex(" -> ")]
        if b.dest is not None and full.startswith(b.dest + " = "):
            full = full[len(b.dest) + 3:]
        depth = 0
        pos = None
        for i in range(len(full) - 1, -1, -1):
            c = full[i]
            if c == ")":
                depth += 1
            elif c == "(":
                depth -= 1
                if depth == 0:
                    pos = i
                    break
        if pos is None:
            raise MirError("cannot split call: " + t)
        b.callee, b.args = full[:pos], full[pos + 1:-1]
        tail = t[t.rindex(" -> ") + 4:]
        mr = re.search(r"return: bb(\d+)", tail)
        if mr:
            b.succ = [int(mr.group(1))]
        elif re.match(r"^bb(\d+)$", tail):
            b.succ = [int(tail[2:])]
        else:
            b.succ = []  # diverging


def parse(path, want=None):
    """Parse the dump. `want`: optional predicate on the header line; other functions are skipped
    (only their header is indexed)."""
    fns = []
    cur = None
    curb = None
    with open(path, errors="replace") as f:
        for ln, line in enumerate(f, 1):
            line = line.rstrip("\n")
            if line.startswith("fn "):
                m = RE_FN.match(line) or RE_FN_NORET.match(line)
                if not m:
                    cur = None
                    continue
                g = m.groups()
                cur = Function(g[0], g[1], g[2] if len(g) > 2 else "()", line, ln)
                cur.skip = want is not None and not want(line)
                fns.append(cur)
                curb = None
                continue
            if cur is None or cur.skip:
                continue
            if line == "}":
                cur = None
                continue
            mb = RE_BB.match(line)
            if mb:
                curb = Block(int(mb.group(1)), bool(mb.group(2)))
                cur.blocks[curb.idx] = curb
                continue
            s = line.strip()
            if curb is None:
                ml = re.match(r"^let (?:mut )?(_\d+): (.*);$", s)
                if ml:
                    cur.locals[ml.group(1)] = ml.group(2)
                md = re.match(r"^debug (\S+) => (.*);$", s)
                if md:
                    cur.debug[md.group(1)] = md.group(2)
                continue
            if s == "}":
                curb = None
                continue
            if not s or s.startswith("//"):
                continue
            if s.startswith("StorageLive") or s.startswith("StorageDead") or s.startswith("nop") or \
                    s.startswith("FakeRead") or s.startswith("PlaceMention") or s.startswith("AscribeUserType") or \
                    s.startswith("Retag") or s.startswith("Coverage") or s.startswith("ConstEvalCounter"):
                continue
            # terminator or statement? statements end with ';' and contain no ' -> ' target list (except closures types)
            is_term = (s in ("return;", "unreachable;", "resume;") or s.startswith("goto -> ") or
                       s.startswith("switchInt(") or s.startswith("drop(") or s.startswith("assert(") or
                       s.startswith("falseEdge") or s.startswith("falseUnwind") or s.startswith("unwind ") or
                       s.startswith("terminate") or
                       re.search(r"\) -> (\[return: bb\d+|\[unwind|unwind |bb\d+;?$)", s) is not None)
            if is_term:
                parse_terminator(curb, s)
            else:
                curb.stmts.append(s.rstrip(";"))
    return fns


def find(fns, header_regex, unique=True):
    r = re.compile(header_regex)
    hits = [f for f in fns if r.search(f.header)]
    if unique and len(hits) != 1:
        raise MirError("function selector %r matched %d functions" % (header_regex, len(hits)))
    return hits[0] if unique else hits

"""Engine X obligations: bounded symbolic execution of MIR (symex.py) against a property-level oracle."""
import itertools
import os
import re

import mir
import symex
from mir import MirError
from symex import BV, B, Opt, Enum, Ref, Obj, Tup, Closure, band, bnot, bor, ite, bvconst


def _src_root():
    return os.path.join(os.environ.get("VERIF_SCRATCH", "/var/tmp/verif-scratch"), "mir", "lsm", "src")


def struct_fields(rel, name):
    txt = open(os.path.join(_src_root(), rel)).read()
    m = re.search(r"struct %s(?:<[^>]*>)?\s*\{(.*?)\n\}" % re.escape(name), txt, re.S)
    if not m:
        raise MirError("struct %s not found in %s" % (name, rel))
    out = []
    for line in m.group(1).splitlines():
        mm = re.match(r"^\s*(pub(\([^)]*\))?\s+)?([a-z_][a-z0-9_]*)\s*:", line)
        if mm and not line.strip().startswith("//"):
            out.append(mm.group(3))
    return out


class Rec(Obj):
    """struct-like object: fields by declaration index, names checked against the source"""

    def __init__(self, kind, rel, struct, values):
        Obj.__init__(self, kind)
        self.names = struct_fields(rel, struct)
        self.values = values  # name -> value

    def field(self, ex, i, ty):
        if i >= len(self.names):
            raise MirError("field .%d of %s out of range" % (i, self.kind))
        n = self.names[i]
        if n not in self.values:
            raise MirError("field %s.%s is not modelled" % (self.kind, n))
        return self.values[n]


class XCheck:
    """result carrier understood by mirdriver"""

    def __init__(self, name, fn, runner):
        self.name, self.fn, self.runner = name, fn, runner
        self.events, self.requires, self.glue = {}, [], []

    def check(self, timeout=600):
        return self.runner(timeout)


# ---------------------------------------------------------------------------------------------
# C19 O19.2: fifo::Strategy::choose
# ---------------------------------------------------------------------------------------------

def _one(x):
    return [(x, [])]


def fifo_models(ex, shape, nosort=False):
    """library models for fifo::Strategy::choose; shape = list of runs, each a list of table indices"""
    tables = {}

    def table(i):
        if i not in tables:
            meta = Rec("ParsedMeta", "table/meta.rs", "ParsedMeta", {"created_at": ex.sym("created_%d" % i, 128),
                                                                       "file_size": ex.sym("size_%d" % i, 64),
                                                                       "id": ex.sym("id_%d" % i, 64)})
            inner = Rec("TableInner", "table/inner.rs", "Inner", {"metadata": meta})
            tables[i] = Obj("Table", i=i, inner=inner, meta=meta,
                            blob_ok=ex.symb("blob_ok_%d" % i), blob=ex.sym("blob_%d" % i, 64))
        return tables[i]

    flat = [table(i) for run in shape for i in run]
    level = Obj("Level", runs=[[table(i) for i in run] for run in shape])
    blobs = Obj("BlobFileList")
    vinner = Rec("VersionInner", "version/mod.rs", "VersionInner", {"blob_files": blobs})
    version = Obj("Version", inner=vinner, l0=level)
    l0_size = bvconst(0, 64)
    for t in flat:
        l0_size = BV(64, "(bvadd %s %s)" % (l0_size.t, t.meta.values["file_size"].t))
    blob_size = ex.sym("blob_on_disk", 64)
    now = ex.sym("now_ns", 128)

    def kind(v, k):
        if isinstance(v, Ref):
            v = v.target
        if not (isinstance(v, Obj) and v.kind == k):
            raise MirError("model expected %s, got %r" % (k, v))
        return v

    def local_obj(env, v, k):
        if isinstance(v, Ref) and isinstance(v.target, tuple):
            v = env[v.target[1]]
        return kind(v, k)

    def m_l0(ex, env, b, a, p, d):
        return _one(local_obj(env, a[0], "Version").l0)

    def m_ident(ex, env, b, a, p, d):
        v = a[0]
        return _one(v.target if isinstance(v, Ref) and not isinstance(v.target, tuple) else v)

    def m_version_deref(ex, env, b, a, p, d):
        return _one(local_obj(env, a[0], "Version").inner)

    def m_table_deref(ex, env, b, a, p, d):
        return _one(local_obj(env, a[0], "Table").inner)

    def m_is_empty_level(ex, env, b, a, p, d):
        return _one(B(len(flat) == 0))

    def m_true(ex, env, b, a, p, d):
        ex.assumptions.add("precondition: %s holds (its failure panics by design)" % b.callee.split("::")[-1])
        return _one(B(True))

    def m_false(ex, env, b, a, p, d):
        ex.assumptions.add("precondition: %s is false (its failure panics by design)" % b.callee.split("::")[-1])
        return _one(B(False))

    def m_opaque(ex, env, b, a, p, d):
        return _one(Obj("Opaque"))

    def m_panic(ex, env, b, a, p, d):
        return None

    def m_level_size(ex, env, b, a, p, d):
        ex.assumptions.add("stub: version::Level::size = wrapping sum of Table::file_size over the level's tables")
        return _one(l0_size)

    def m_blob_size(ex, env, b, a, p, d):
        ex.assumptions.add("stub: BlobFileList::on_disk_size = arbitrary u64")
        return _one(blob_size)

    def m_set_new(ex, env, b, a, p, d):
        return _one(Obj("Set", items=[]))

    def m_set_insert(ex, env, b, a, p, d):
        s = local_obj(env, a[0], "Set")
        s.items.append(a[1])
        return _one(B(True))

    def m_set_is_empty(ex, env, b, a, p, d):
        return _one(B(len(local_obj(env, a[0], "Set").items) == 0))

    def m_now(ex, env, b, a, p, d):
        ex.assumptions.add("stub: unix_timestamp() = arbitrary instant (nanoseconds as u128)")
        return _one(Obj("Duration", nanos=now))

    def m_as_nanos(ex, env, b, a, p, d):
        return _one(local_obj(env, a[0], "Duration").nanos)

    def m_zext128(ex, env, b, a, p, d):
        return _one(ex.int_cast(a[0], 128, False))

    def m_sat_sub(ex, env, b, a, p, d):
        x, y = a
        return _one(BV(x.w, "(ite (bvuge %s %s) (bvsub %s %s) (_ bv0 %d))" % (x.t, y.t, x.t, y.t, x.w)))

    def m_vec_new(ex, env, b, a, p, d):
        return _one(Obj("Vec", items=[]))

    def m_vec_push(ex, env, b, a, p, d):
        local_obj(env, a[0], "Vec").items.append(a[1])
        return _one(Tup([]))

    def m_deref_mut_vec(ex, env, b, a, p, d):
        return _one(local_obj(env, a[0], "Vec"))

    def m_level_iter(ex, env, b, a, p, d):
        return _one(Obj("RunIter", runs=local_obj(env, a[0], "Level").runs))

    def m_flat_map(ex, env, b, a, p, d):
        # the closure must be `|run| run.iter()`: deref, deref, <[Table]>::iter
        cf = ex.by_span.get(a[1].span)
        if cf is None:
            raise MirError("flat_map closure not found")
        callees = [bb.callee for bb in cf.blocks.values() if not bb.cleanup and bb.kind == "call"]
        if not (len(callees) == 3 and "Arc<Run<Table>> as Deref>::deref" in callees[0] and "Run<Table> as Deref>::deref" in callees[1]
                and re.search(r"\[Table\]>::iter$", callees[2])):
            raise MirError("flat_map closure is not `|run| run.iter()`: %s" % callees)
        runs = local_obj(env, a[0], "RunIter").runs
        return _one(Obj("Iter", items=[t for r in runs for t in r], pos=0))

    def m_into_iter(ex, env, b, a, p, d):
        v = a[0]
        if isinstance(v, Obj) and v.kind == "Iter":
            return _one(v)
        if isinstance(v, Obj) and v.kind == "Vec":
            return _one(Obj("Iter", items=list(v.items), pos=0))
        raise MirError("into_iter of %r" % (v,))

    def m_next(ex, env, b, a, p, d):
        it = local_obj(env, a[0], "Iter")
        if it.pos < len(it.items):
            it.pos += 1
            return _one(Opt(B(True), it.items[it.pos - 1]))
        return _one(Opt(B(False), None))

    def m_is_some_and(ex, env, b, a, p, d):
        o, clo = a
        if o.cond.const() is False:
            return _one(B(False))
        outs = ex.call_closure(clo, [o.val], p, d)
        if len(outs) != 1:
            raise MirError("is_some_and closure forks")
        ret, conds = outs[0]
        if conds:
            raise MirError("is_some_and closure has side conditions")
        return _one(band(o.cond, ret))

    def m_table_id(ex, env, b, a, p, d):
        return _one(local_obj(env, a[0], "Table").meta.values["id"])

    def m_file_size(ex, env, b, a, p, d):
        ex.assumptions.add("stub: Table::file_size = metadata.file_size")
        return _one(local_obj(env, a[0], "Table").meta.values["file_size"])

    def m_blob_bytes(ex, env, b, a, p, d):
        ex.assumptions.add("stub: Table::referenced_blob_bytes = arbitrary Result<u64> per table")
        t = local_obj(env, a[0], "Table")
        return _one(Opt(t.blob_ok, t.blob))

    def m_unwrap_or_default(ex, env, b, a, p, d):
        o = a[0]
        return _one(ite(o.cond, o.val, bvconst(0, o.val.w)))

    def m_sort_by_key(ex, env, b, a, p, d):
        v = local_obj(env, a[0], "Vec")
        loc = re.search(r"_\d+", mir.split_top(b.args)[0]).group(0)
        clo = a[1]
        keys = []
        for t in v.items:
            outs = ex.call_closure(clo, [Ref(Ref(t))], p, d)
            if len(outs) != 1 or outs[0][1]:
                raise MirError("sort key closure forks")
            keys.append(outs[0][0])
        n = len(v.items)
        if nosort:
            return _one(Tup([]))
        if n <= 1:
            return _one(Tup([]))
        stable = "sort_unstable" not in b.callee
        rev = [isinstance(k, Enum) and k.variant == "Reverse" for k in keys]
        if any(rev) and not all(rev):
            raise MirError("sort keys of mixed shape")
        kt = [k.payload[0] if isinstance(k, Enum) else k for k in keys]
        if not all(isinstance(k, BV) for k in kt):
            raise MirError("sort key is not an integer (or Reverse of one): %r" % (keys[0],))
        ex.assumptions.add("stub: slice::sort[_unstable]_by_key = the (stable) sort by the closure's key (one successor per permutation, constrained to be a sorted one)")
        outs = []
        for perm in itertools.permutations(range(n)):
            conds = []
            for x in range(n - 1):
                i, j = perm[x], perm[x + 1]
                lo, hi = (kt[j], kt[i]) if rev[0] else (kt[i], kt[j])
                if i < j or not stable:
                    conds.append("(bvule %s %s)" % (lo.t, hi.t))
                else:
                    conds.append("(bvult %s %s)" % (lo.t, hi.t))

            def patch(ex2, env2, perm=perm, loc=loc):
                v2 = local_obj(env2, env2[loc], "Vec")
                v2.items = [v2.items[k] for k in perm]
            outs.append((Tup([]), conds, patch))
        return outs

    def copy_ref(r):
        return r

    models = [
        (r"^Version::l0$", m_l0),
        (r"^<version::Level as Deref>::deref$", m_ident),
        (r"^GenericLevel::<Table>::is_empty$", m_is_empty_level),
        (r"^GenericLevel::<Table>::is_disjoint$", m_true),
        (r"^CompactionState::hidden_set$", m_opaque),
        (r"^Version::level_is_busy$", m_false),
        (r"^Arguments::<'_>::from_str$", m_opaque),
        (r"^panic_fmt$", m_panic),
        (r"^version::Level::size$", m_level_size),
        (r"^<Version as Deref>::deref$", m_version_deref),
        (r"^<Arc<BlobFileList> as Deref>::deref$", m_ident),
        (r"^BlobFileList::on_disk_size$", m_blob_size),
        (r"^<std::collections::HashSet<u64, [^>]*> as Default>::default$", m_set_new),
        (r"^std::collections::HashSet::<u64, [^>]*>::insert$", m_set_insert),
        (r"^std::collections::HashSet::<u64, [^>]*>::is_empty$", m_set_is_empty),
        (r"^unix_timestamp$", m_now),
        (r"^Duration::as_nanos$", m_as_nanos),
        (r"^<u128 as From<u64>>::from$", m_zext128),
        (r"^<u128 as From<Timestamp>>::from$", m_ident),
        (r"^core::num::<impl u(64|128)>::saturating_sub$", m_sat_sub),
        (r"^Vec::<&Table>::new$", m_vec_new),
        (r"^Vec::<&Table>::push$", m_vec_push),
        (r"^<Vec<&Table> as DerefMut>::deref_mut$", m_deref_mut_vec),
        (r"^GenericLevel::<Table>::iter$", m_level_iter),
        (r"as Iterator>::flat_map::<std::slice::Iter<'_, Table>", m_flat_map),
        (r"as IntoIterator>::into_iter$", m_into_iter),
        (r"^<FlatMap<.*Table.*> as Iterator>::next$", m_next),
        (r"^<std::vec::IntoIter<&Table> as Iterator>::next$", m_next),
        (r"^Option::<u128>::is_some_and::<", m_is_some_and),
        (r"^Table::id$", m_table_id),
        (r"^Table::file_size$", m_file_size),
        (r"^Table::referenced_blob_bytes$", m_blob_bytes),
        (r"^std::result::Result::<u64, error::Error>::unwrap_or_default$", m_unwrap_or_default),
        (r"^<Table as Deref>::deref$", m_table_deref),
        (r"^(std|core)::slice::<impl \[&Table\]>::sort(_unstable)?_by_key::<", m_sort_by_key),
    ]
    selfobj = Rec("Strategy", "compaction/fifo.rs", "Strategy",
                  {"limit": ex.sym("limit", 64), "ttl_seconds": Opt(ex.symb("ttl_some"), ex.sym("ttl_s", 64))})
    ctx = dict(tables=tables, flat=flat, now=now, blob_size=blob_size, l0_size=l0_size, selfobj=selfobj)
    return models, [Ref(selfobj), Ref(version), Ref(Obj("Config")), Ref(Obj("CompactionState"))], ctx


def _fifo_run(fns, fn, shape, nosort, timeout):
    closures = [f for f in fns if f.closure_span() and "src/compaction/fifo.rs" in f.closure_span()]
    ex = symex.Executor([fn] + closures, [])
    ex.abstract_mul = True
    models, args, ctx = fifo_models(ex, shape, nosort)
    ex.models = [(re.compile(r), h) for r, h in models]
    results = []

    def done(ret, env, path):
        results.append((ret, env, path))
    ex.run(fn, args, symex.Path(), done)
    flat = ctx["flat"]
    n = len(flat)
    W = 140

    def z(t, w):
        return "((_ zero_extend %d) %s)" % (W - w, t)
    ttl_some, ttl_s = ctx["selfobj"].values["ttl_seconds"].cond.t, ctx["selfobj"].values["ttl_seconds"].val.t
    limit = ctx["selfobj"].values["limit"].t
    created = [t.meta.values["created_at"].t for t in flat]
    # oracle, written independently of the code: a table exceeded the TTL iff created + ttl * 10^9 ns <= now (no wrap: 140 bit)
    t_real = "(bvmul %s (_ bv1000000000 %d))" % (z(ttl_s, 64), W)
    lemma, glob = None, []
    if len(ex.mul_defs) == 1:
        # the code multiplies once by a constant: prove separately that this product is ttl_s * 10^9 (no overflow),
        # then let code and oracle share one variable for it (the property is proved for every value < 2^94 of it)
        d = list(ex.mul_defs.values())[0]
        real = "(bvmul %s (_ bv%d %d))" % (d["a"], d["c"], d["w"])
        ovf = "(bvugt %s (_ bv%d %d))" % (d["a"], ((1 << d["w"]) - 1) // d["c"], d["w"]) if d["c"] else "false"
        lemma = "(or %s (not (= %s %s)))" % (ovf, z(real, d["w"]), t_real)
        ex.decls["ttl_ns"] = "(_ BitVec %d)" % W
        glob = ["(= %s ttl_ns)" % z(d["var"], d["w"]), "(not %s)" % d["ovf"], "(bvult ttl_ns (bvshl (_ bv1 %d) (_ bv94 %d)))" % (W, W)]
        t_or = "ttl_ns"
    else:
        t_or = t_real
    expired = ["(and %s (bvugt %s (_ bv0 64)) (bvule (bvadd %s %s) %s))" % (
        ttl_some, ttl_s, z(c, 128), t_or, z(ctx["now"].t, 128)) for c in created]
    total = "(bvadd %s %s)" % (z(ctx["l0_size"].t, 64), z(ctx["blob_size"].t, 64))
    within = "(bvule %s %s)" % (total, z(limit, 64))
    base = ["(bvuge %s (_ bv1 128))" % c for c in created]  # a table was created after the epoch
    if n > 1:
        base.append("(distinct %s)" % " ".join(t.meta.values["id"].t for t in flat))
    ex.assumptions.add("every table's created_at is >= 1 ns after the epoch")
    queries, info = [], {}
    cover = {"DoNothing": 0, "Drop(ttl only)": 0, "Drop(size)": 0}
    for k, (ret, env, path) in enumerate(results):
        pc = base + path.pc
        if not isinstance(ret, Enum):
            raise MirError("choose returned %r" % (ret,))
        if ret.variant == "DoNothing":
            dropped = []
        elif ret.variant == "Drop":
            st = ret.payload[0]
            if not (isinstance(st, Obj) and st.kind == "Set"):
                raise MirError("Choice::Drop payload is %r" % (st,))
            dropped = []
            for it in st.items:
                m = re.fullmatch(r"id_(\d+)", it.t)
                if not m:
                    raise MirError("dropped id is not a table id: %s" % it.t)
                dropped.append([i for i, t in enumerate(flat) if t.i == int(m.group(1))][0])
        else:
            raise MirError("choose returned Choice::%s" % ret.variant)
        dset = sorted(set(dropped))
        queries.append(("feasible:%d" % k, pc))
        info[k] = (ret.variant, dset, path)
        # the set a DoNothing path accumulated must be empty (else the result does not reflect the drops)
        if ret.variant == "Drop" and not dset:
            queries.append(("R3:%d" % k, pc))
        if dset:
            keep = [j for j in range(n) if j not in dset]
            bad = ["(and (not %s) (bvugt %s %s))" % (expired[i], created[i], created[j]) for i in dset for j in keep]
            if bad:
                queries.append(("R1:%d" % k, pc + ["(or %s)" % " ".join(bad) if len(bad) > 1 else bad[0]]))
            queries.append(("R2:%d" % k, pc + [within] + ["(not %s)" % e for e in expired]))
    return ex, queries, info, dict(expired=expired, created=created, n=n, lemma=lemma, glob=glob)


def fifo_choose(fns):
    fn = mir.find(fns, r"src/compaction/fifo\.rs[^>]*>::choose\(")
    tier = os.environ.get("VERIF_TIER", "quick")
    shapes = [[], [[0]], [[0], [1]], [[0], [1], [2]], [[0, 1], [2]]]
    if tier == "thorough":
        shapes += [[[0], [1], [2], [3]], [[0], [1, 2], [3]]]

    def runner(timeout, nosort=False):
        t0 = __import__("time").time()
        allq, meta = [], {}
        lemma, glob = None, []
        decls, assumptions, paths = {}, set(), 0
        for si, shape in enumerate(shapes):
            ex, queries, info, ctx = _fifo_run(fns, fn, shape, nosort, timeout)
            decls.update(ex.decls)
            assumptions |= ex.assumptions
            paths += len(info)
            for tag, asserts in queries:
                allq.append(("%d/%s" % (si, tag), asserts))
            meta[si] = (shape, info, ctx)
            if ctx["lemma"]:
                lemma, glob = ctx["lemma"], ctx["glob"]
        lem_res = None
        if lemma:
            # lemma: the product computed by the code (MIR operands) is ttl_s * 10^9 without overflow, for every ttl_s
            la, _, _ = symex.solve_batch(decls, [("lemma", [lemma])], "cvc5", 300, (), 300000)
            lb, _, _ = symex.solve_batch(decls, [("lemma", [lemma])], "z3new", 60, (), 60000)
            va, vb = (la or {}).get("lemma"), (lb or {}).get("lemma")
            got = {v for v in (va, vb) if v in ("sat", "unsat")}
            lem_res = got.pop() if len(got) == 1 else None
            x.glue = [("TTL cutoff: the constant multiplication in choose equals ttl_seconds * 10^9 ns without overflow (cvc5: %s, z3: %s)" % (va, vb),
                       {"unsat": "proved", "sat": "refuted"}.get(lem_res, "inconclusive"), 0.0)]
        res, dt, raw = symex.solve_parallel(decls, allq, "cvc5int", timeout, 12, glob)
        out = {"nodes": paths, "steps_bound": max(sum(len(r) for r in s) for s in shapes),
               "assertions": sum(len(a) for _, a in allq) + len(glob), "violation_disjuncts": len(allq), "z3_s": round(dt, 2),
               "queries": len(allq), "paths": paths, "assumptions": sorted(assumptions),
               "solvers": "cvc5 1.0 --solve-bv-as-int=sum (deciding) ; cvc5 1.0 bit-blasting (cross-check, 20 s per query)"}
        if res is None:
            out.update(verdict="inconclusive", reason="cvc5 (int encoding): %s" % raw, z3="error")
            return out
        res2, dt2, raw2 = symex.solve_parallel(decls, allq, "cvc5", timeout, 12, glob, 20000)
        out["cvc5_s"] = round(dt2, 2)
        if res2 is None:
            out.update(verdict="inconclusive", reason="cvc5 (bit-blasting cross-check): %s" % str(raw2)[:300], z3="ok", cvc5="error")
            return out
        diff = [t for t in res if res[t] != res2[t] and "unknown" not in (res[t], res2[t])]
        out["cross_checked"] = len([t for t in res if res2[t] != "unknown"])
        out["cross_unknown"] = len([t for t in res if res2[t] == "unknown"])
        if diff:
            out.update(verdict="inconclusive", reason="the two encodings disagree on %s" % diff[:3], z3="ok", cvc5="ok")
            return out
        if any(v == "unknown" for v in res.values()):
            out.update(verdict="inconclusive", reason="solver answered unknown on %d queries" % len([v for v in res.values() if v == "unknown"]), z3="unknown")
            return out
        feas = [t for t, v in res.items() if "/feasible:" in t and v == "sat"]
        viol = [t for t, v in res.items() if "/feasible:" not in t and v == "sat"]
        out["feasible_paths"] = len(feas)
        kinds = set()
        for t in feas:
            si, k = int(t.split("/")[0]), int(t.split(":")[1])
            variant, dset, path = meta[si][1][k]
            kinds.add("%s|%d" % (variant, len(dset)))
        out["covered_outcomes"] = sorted(kinds)
        out["z3"] = "sat" if viol else "unsat"
        out["cvc5"] = out["z3"]
        need = {"DoNothing|0", "Drop|1", "Drop|2"}
        if not need <= kinds and not viol and not (lemma and lem_res == "sat"):
            out.update(verdict="inconclusive", reason="vacuity: outcomes %s never feasible" % sorted(need - kinds))
            return out
        if lemma and lem_res != "unsat":
            if lem_res == "sat":
                out.update(verdict="refuted", reason="the TTL cutoff is not now - ttl_seconds * 10^9 ns (unit / operand of the multiplication)",
                           path=["  lemma refuted: %s" % lemma])
            else:
                out.update(verdict="inconclusive", reason="multiplication lemma undecided")
            return out
        if not viol:
            out.update(verdict="proved", reason="")
            return out
        t = viol[0]
        si, rest = t.split("/")
        si = int(si)
        req, k = rest.split(":")
        k = int(k)
        shape, info, ctx = meta[si]
        variant, dset, path = info[k]
        asserts = dict(allq)[t]
        want = sorted(n for n in decls if re.match(r"(created|size|blob|id)_\d+$|limit$|ttl_s$|ttl_some$|now_ns$|blob_on_disk$|blob_ok_\d+$", n))
        model = symex.model_of(decls, list(glob) + asserts, want)
        msgs = {"R1": "a dropped table that has not exceeded the TTL is newer (created_at) than a retained table",
                "R2": "tables are dropped although the tree is within its size limit and no table exceeded the TTL",
                "R3": "Choice::Drop with an empty set / result does not reflect the accumulated drops"}
        lines = ["  L0 shape (runs of table indices): %s" % shape, "  result: Choice::%s, dropped table indices %s" % (variant, dset),
                 "  violated: %s (%s)" % (req, msgs[req]), "  input (solver model):"]
        for nme in want:
            if nme in model:
                lines.append("    %-14s = %s" % (nme, model[nme]))
        lines.append("  MIR path: " + " ".join("bb%d" % bbi for f, bbi in path.trace if f == fn.name))
        out.update(verdict="refuted", reason=msgs[req], path=lines)
        return out

    x = XCheck("O19.2 fifo::Strategy::choose: drops oldest-first unless expired, nothing within limit and TTL (symbolic execution, L0 of <= %d tables)" % max(
        sum(len(r) for r in s) for s in shapes), fn, runner)
    x.requires = [("R1", "", "no dropped, non-expired table is newer than a retained table"),
                  ("R2", "", "nothing is dropped while total size <= limit and no table exceeded the TTL"),
                  ("R3", "", "Choice::Drop carries exactly the accumulated ids; DoNothing iff none")]
    x.shapes = shapes
    x.canary = lambda timeout: runner(timeout, nosort=True)
    return [x]


# ---------------------------------------------------------------------------------------------
# C15 O15.4: clear() publishes a super version with a fresh active memtable, no sealed memtables, an empty version
# ---------------------------------------------------------------------------------------------

def _clear_check(fns, sel, title):
    outer = mir.find(fns, sel)
    up = [b for b in outer.blocks.values() if not b.cleanup and b.kind == "call" and re.search(r"SuperVersions::upgrade_version::<", b.callee)]
    if len(up) != 1:
        raise MirError("clear: expected exactly one upgrade_version call")
    spans = re.findall(r"\{closure@([^}]+)\}", up[0].callee)
    cfs = [f for f in fns if f.closure_span() in spans]
    if len(cfs) != 1:
        raise MirError("clear: closure passed to upgrade_version not found")
    cf = cfs[0]
    names = struct_fields("version/super_version.rs", "SuperVersion")

    def runner(timeout):
        ex = symex.Executor([cf], [])
        old = Tup([Obj("OldActive"), Obj("OldSealed"), Obj("OldVersion"), ex.sym("old_seqno", 64)])
        if len(names) != 4 or names[:3] != ["active_memtable", "sealed_memtables", "version"]:
            raise MirError("SuperVersion fields changed: %s" % names)
        old_id = ex.sym("old_version_id", 64)

        def m_clone(ex, env, b, a, p, d):
            return _one(Tup(list(old.items)))

        def m_opaque(kind):
            return lambda ex, env, b, a, p, d: _one(Obj(kind, args=a))

        def m_version_id(ex, env, b, a, p, d):
            v = a[0].target if isinstance(a[0], Ref) else a[0]
            if not (isinstance(v, Obj) and v.kind == "OldVersion"):
                raise MirError("Version::id of %r" % (v,))
            return _one(old_id)

        ex.models = [(re.compile(r), h) for r, h in [
            (r"^<SuperVersion as Clone>::clone$", m_clone),
            (r"^<(Tree|BlobTree) as Deref>::deref$", m_opaque("TreeInner")),
            (r"^SequenceNumberCounter::next$", m_opaque("FreshId")),
            (r"^Memtable::new$", m_opaque("FreshMemtable")),
            (r"^Arc::<Memtable>::new$", lambda ex, env, b, a, p, d: _one(a[0])),
            (r"^<Arc<SealedMemtables> as Default>::default$", m_opaque("EmptySealed")),
            (r"^<SealedMemtables as Default>::default$", m_opaque("EmptySealed")),
            (r"^Arc::<SealedMemtables>::new$", lambda ex, env, b, a, p, d: _one(a[0])),
            (r"^Version::id$", m_version_id),
            (r"^<(Tree|BlobTree) as AbstractTree>::tree_type$", m_opaque("TreeType")),
            (r"^Version::new$", m_opaque("NewVersion")),
        ]]

        class TreeRec(Obj):
            def field(self, ex, i, ty):
                return Obj("TreeField", i=i, ty=ty)
        ex_models_extra = []
        results = []
        # the tree handle: fields are opaque (counters etc.)
        tree = TreeRec("Tree")
        ex.models.insert(1, (re.compile(r"^<(Tree|BlobTree) as Deref>::deref$"), lambda ex, env, b, a, p, d: _one(tree)))
        clo = Closure(cf.closure_span(), [Ref(tree)])

        def done(ret, env, path):
            results.append((ret, path))
        ex.run(cf, [clo, Ref(old)], symex.Path(), done)
        out = {"nodes": len(results), "steps_bound": 1, "assertions": 0, "violation_disjuncts": 0, "z3_s": 0.0, "queries": 0,
               "paths": len(results), "feasible_paths": len(results), "assumptions": sorted(ex.assumptions),
               "solvers": "cvc5 1.0 --solve-bv-as-int=sum"}
        bad, queries = [], []
        for k, (ret, path) in enumerate(results):
            if not (isinstance(ret, Enum) and ret.variant == "Ok" and isinstance(ret.payload[0], Tup)):
                bad.append((k, "closure does not return Ok(super version)", path))
                continue
            f = ret.payload[0].items
            if not (isinstance(f[0], Obj) and f[0].kind == "FreshMemtable"):
                bad.append((k, "the active memtable of the cleared super version is not a fresh Memtable::new(..): writes made before clear() stay readable", path))
            if not (isinstance(f[1], Obj) and f[1].kind == "EmptySealed"):
                bad.append((k, "the sealed memtables survive clear(): a rotated but unflushed memtable stays readable and is flushed later", path))
            if not (isinstance(f[2], Obj) and f[2].kind == "NewVersion"):
                bad.append((k, "the version of the cleared super version is not Version::new(..): tables survive clear()", path))

        if queries:
            res, dt, raw = symex.solve_batch(ex.decls, queries, "cvc5int", timeout)
            out.update(z3_s=round(dt, 2), queries=len(queries), assertions=sum(len(a) for _, a in queries))
            if res is None or any(v == "unknown" for v in res.values()):
                out.update(verdict="inconclusive", reason="solver: %s" % str(raw)[:200], z3="error")
                return out
            for t, v in res.items():
                if v == "sat":
                    bad.append((int(t.split(":")[1]), "the new version's id is not the old id + 1", results[int(t.split(":")[1])][1]))
        out["z3"] = out["cvc5"] = "sat" if bad else "unsat"
        if not results:
            out.update(verdict="inconclusive", reason="no path through the closure")
        elif bad:
            k, msg, path = bad[0]
            out.update(verdict="refuted", reason=msg, path=["  closure %s" % cf.name, "  MIR path: " + " ".join("bb%d" % bb for _, bb in path.trace)])
        else:
            out.update(verdict="proved", reason="")
        return out

    x = XCheck(title, cf, runner)
    x.requires = [("", "", "active memtable fresh, sealed memtables empty, version = Version::new(..) (an empty version)")]
    x.shapes = "n/a (straight-line closure)"
    return x


def _clear_id_check(fns, sel, title):
    base = _clear_check(fns, sel, title)
    cf = base.fn

    def runner(timeout):
        ex = symex.Executor([cf], [])
        old = Tup([Obj("OldActive"), Obj("OldSealed"), Obj("OldVersion"), ex.sym("old_seqno", 64)])
        old_id = ex.sym("old_version_id", 64)
        tree = Obj("Tree")

        class TreeRec(Obj):
            def field(self, ex2, i, ty):
                return Obj("TreeField", i=i, ty=ty)
        tree = TreeRec("Tree")

        def opq(kind):
            return lambda ex2, env, b, a, p, d: _one(Obj(kind, args=a))

        def m_version_id(ex2, env, b, a, p, d):
            return _one(old_id)
        ex.models = [(re.compile(r), h) for r, h in [
            (r"^<SuperVersion as Clone>::clone$", lambda ex2, env, b, a, p, d: _one(Tup(list(old.items)))),
            (r"^<(Tree|BlobTree) as Deref>::deref$", lambda ex2, env, b, a, p, d: _one(tree)),
            (r"^SequenceNumberCounter::next$", opq("FreshId")), (r"^Memtable::new$", opq("FreshMemtable")),
            (r"^Arc::<Memtable>::new$", lambda ex2, env, b, a, p, d: _one(a[0])),
            (r"^<Arc<SealedMemtables> as Default>::default$", opq("EmptySealed")), (r"^<SealedMemtables as Default>::default$", opq("EmptySealed")),
            (r"^Arc::<SealedMemtables>::new$", lambda ex2, env, b, a, p, d: _one(a[0])),
            (r"^Version::id$", m_version_id), (r"^<(Tree|BlobTree) as AbstractTree>::tree_type$", opq("TreeType")),
            (r"^Version::new$", opq("NewVersion")),
        ]]
        res = []
        ex.run(cf, [Closure(cf.closure_span(), [Ref(tree)]), Ref(old)], symex.Path(), lambda ret, env, path: res.append((ret, path)))
        out = {"nodes": len(res), "steps_bound": 1, "assertions": 0, "violation_disjuncts": 0, "z3_s": 0.0, "queries": 0, "paths": len(res), "feasible_paths": len(res),
               "assumptions": sorted(ex.assumptions), "solvers": "cvc5 1.0 --solve-bv-as-int=sum (deciding) ; z3 5.1.0 (cross-check)"}
        qs = []
        for k, (ret, path) in enumerate(res):
            if not (isinstance(ret, Enum) and ret.variant == "Ok"):
                raise MirError("clear closure does not return Ok")
            nv = ret.payload[0].items[2]
            if not (isinstance(nv, Obj) and nv.kind == "NewVersion" and isinstance(nv.args[0], BV)):
                raise MirError("clear: the new version is not Version::new(<integer id>, ..)")
            qs.append(("id:%d" % k, path.pc + ["(not (= %s (bvadd old_version_id (_ bv1 64))))" % nv.args[0].t]))
        r1, dt, raw = symex.solve_batch(ex.decls, qs, "cvc5int", timeout)
        r2, dt2, raw2 = symex.solve_batch(ex.decls, qs, "z3new", timeout)
        out.update(z3_s=round(dt, 2), cvc5_s=round(dt2, 2), queries=len(qs), assertions=sum(len(a) for _, a in qs))
        if r1 is None or r2 is None or any(r1[t] != r2[t] for t in r1):
            out.update(verdict="inconclusive", reason="solver: %s" % str(raw)[:200], z3="error")
            return out
        bad = [t for t, v in r1.items() if v == "sat"]
        out["z3"] = out["cvc5"] = "sat" if bad else "unsat"
        if bad:
            out.update(verdict="refuted", reason="clear() builds the empty version with an id other than old id + 1 (e.g. the old id itself): persist_version rewrites the live version file in place, a crash before `current` switches leaves it torn",
                       path=["  closure %s" % cf.name])
        else:
            out.update(verdict="proved", reason="")
        return out
    x = XCheck(title, cf, runner)
    x.requires = [("", "", "the empty version gets id = old id + 1")]
    x.shapes = "n/a (straight-line closure)"
    return x


def clear_version_ids(fns):
    return [_clear_id_check(fns, r"src/tree/mod\.rs[^>]*>::clear\(", "O5.4c Tree::clear gives the empty version the id old + 1"),
            _clear_id_check(fns, r"src/blob_tree/mod\.rs[^>]*>::clear\(", "O5.4d BlobTree::clear gives the empty version the id old + 1")]


def clear_resets(fns):
    return [_clear_check(fns, r"src/tree/mod\.rs[^>]*>::clear\(", "O15.4a Tree::clear publishes a super version with nothing in it"),
            _clear_check(fns, r"src/blob_tree/mod\.rs[^>]*>::clear\(", "O15.4b BlobTree::clear publishes a super version with nothing in it")]


# ---------------------------------------------------------------------------------------------
# C17 O17.3: StreamFilterAdapter::filter_item maps every compaction-filter verdict to the stream verdict it stands for
# ---------------------------------------------------------------------------------------------

def enum_variants(rel, name):
    txt = open(os.path.join(_src_root(), rel)).read()
    m = re.search(r"enum %s\s*\{(.*?)\n\}" % re.escape(name), txt, re.S)
    if not m:
        raise MirError("enum %s not found in %s" % (name, rel))
    out = []
    for line in m.group(1).splitlines():
        mm = re.match(r"^\s*([A-Z][A-Za-z0-9_]*)\s*(\(|,|\{|$)", line)
        if mm:
            out.append(mm.group(1))
    return out


def same(a, b):
    """object identity across the deep copies made at forks: kinds are unique per modelled object"""
    return isinstance(a, Obj) and isinstance(b, Obj) and a.kind == b.kind


def filter_adapter(fns):
    fn = mir.find(fns, r"src/compaction/filter\.rs[^>]*>::filter_item\(_1: &mut StreamFilterAdapter")
    variants = enum_variants("compaction/filter.rs", "Verdict")
    want = {"Keep", "Remove", "RemoveWeak", "ReplaceValue", "Destroy"}
    if set(variants) != want:
        raise MirError("compaction::filter::Verdict has variants %s" % variants)

    def runner(timeout):
        ex = symex.Executor([fn], [])
        discr = ex.sym("verdict", 64)
        new_value = Obj("NewValue")
        verdict = symex.SymEnum(discr, variants, {v: ([new_value] if v == "ReplaceValue" else []) for v in variants})
        ferr = Obj("FilterError")
        has_filter, is_err = ex.symb("has_filter"), ex.symb("filter_returns_err")
        dynf, shared, ctx = Obj("DynFilter"), Obj("Shared"), Obj("Ctx")
        selfobj = Rec("StreamFilterAdapter", "compaction/filter.rs", "StreamFilterAdapter",
                      {"filter": Opt(has_filter, dynf), "shared": shared, "ctx": Ref(ctx)})
        ikey = Obj("ItemKey")

        class Item(Obj):
            def field(self, ex, i, ty):
                if i == 0 and "InternalKey" in ty:
                    return ikey
                raise MirError("item field %d" % i)
        item = Item("Item")
        seen = {}

        def m_as_mut(ex, env, b, a, p, d):
            o = a[0].target if isinstance(a[0], Ref) else a[0]
            return _one(Opt(o.cond, Ref(o.val)))

        def m_filter(ex, env, b, a, p, d):
            f = a[0].target if isinstance(a[0], Ref) else a[0]
            acc = a[1]
            it = acc.fields.get("item") if isinstance(acc, symex.Agg) else None
            it = it.target if isinstance(it, Ref) else it
            c = a[2].target if isinstance(a[2], Ref) else a[2]
            seen["args_ok"] = (same(f, dynf) or (isinstance(f, Ref) and same(f.target, dynf))) and same(it, item) and same(c, ctx)
            return _one(symex.Sum2(is_err, "Ok", "Err", [verdict], [ferr]))

        def m_branch(ex, env, b, a, p, d):
            r = a[0]
            return _one(symex.Sum2(r.c1, "Continue", "Break", r.p0, [Obj("Residual", err=r.p1[0])]))

        def m_from_residual(ex, env, b, a, p, d):
            return _one(Enum("Err", [a[0]]))

        def m_empty(ex, env, b, a, p, d):
            return _one(Obj("EmptySlice"))

        def m_handle_write(ex, env, b, a, p, d):
            return _one(Obj("HandleWrite", args=a))

        def m_map(ex, env, b, a, p, d):
            return _one(Obj("Mapped", of=a[0], by=a[1]))

        ex.models = [(re.compile(r), h) for r, h in [
            (r"^Option::<&mut dyn CompactionFilter>::as_mut$", m_as_mut),
            (r"^<dyn CompactionFilter as CompactionFilter>::filter_item$", m_filter),
            (r"^<std::result::Result<Verdict, error::Error> as Try>::branch$", m_branch),
            (r"as FromResidual<std::result::Result<Infallible, error::Error>>>::from_residual$", m_from_residual),
            (r"^(slice::)?slice_default::Slice::empty$", m_empty),
            (r"^StreamFilterAdapter::<'_, '_>::handle_write$", m_handle_write),
            (r"^std::result::Result::<\(ValueType, slice_default::Slice\), error::Error>::map::<StreamFilterVerdict,", m_map),
        ]]
        results = []
        ex.run(fn, [Ref(selfobj), Ref(item)], symex.Path(), lambda ret, env, path: results.append((ret, path)))
        idx = {v: i for i, v in enumerate(variants)}
        queries = []
        for k, (ret, path) in enumerate(results):
            queries.append(("nofilter:%d" % k, path.pc + ["(not has_filter)"]))
            queries.append(("err:%d" % k, path.pc + ["has_filter", "filter_returns_err"]))
            for v in variants:
                queries.append(("%s:%d" % (v, k), path.pc + ["has_filter", "(not filter_returns_err)", "(= verdict (_ bv%d 64))" % idx[v]]))
        base = ["(bvult verdict (_ bv%d 64))" % len(variants)]
        res, dt, raw = symex.solve_batch(ex.decls, queries, "cvc5int", timeout, base)
        out = {"nodes": len(results), "steps_bound": 1, "assertions": sum(len(a) for _, a in queries), "violation_disjuncts": len(queries),
               "z3_s": round(dt, 2), "queries": len(queries), "paths": len(results), "assumptions": sorted(ex.assumptions),
               "solvers": "cvc5 1.0 --solve-bv-as-int=sum (deciding) ; z3 5.1.0 (cross-check)"}
        if res is None:
            out.update(verdict="inconclusive", reason="solver: %s" % str(raw)[:200], z3="error")
            return out
        res2, dt2, raw2 = symex.solve_batch(ex.decls, queries, "z3new", timeout, base)
        out["cvc5_s"] = round(dt2, 2)
        if res2 is None or any(res[t] != res2[t] for t in res):
            out.update(verdict="inconclusive", reason="cross-check failed or disagrees", z3="error")
            return out

        def is_ok(ret, inner):
            return isinstance(ret, Enum) and ret.variant == "Ok" and inner(ret.payload[0])

        def replace_with(vt):
            def f(x):
                if not (isinstance(x, Enum) and x.variant == "Replace" and isinstance(x.payload[0], Tup)):
                    return False
                t = x.payload[0].items
                return isinstance(t[0], Enum) and t[0].variant == vt and isinstance(t[1], Obj) and t[1].kind == "EmptySlice"
            return f

        def keep(x):
            return isinstance(x, Enum) and x.variant == "Keep"

        def drop(x):
            return isinstance(x, Enum) and x.variant == "Drop"

        def handle_write_ok(ret):
            if not (isinstance(ret, Obj) and ret.kind == "Mapped" and isinstance(ret.by, symex.FnItem) and ret.by.path.endswith("StreamFilterVerdict::Replace")):
                return False
            hw = ret.of
            if not (isinstance(hw, Obj) and hw.kind == "HandleWrite"):
                return False
            a = hw.args
            k = a[1].target if isinstance(a[1], Ref) else a[1]
            return same(k, ikey) and same(a[2], new_value)
        expect = {
            "nofilter": ("Ok(StreamFilterVerdict::Keep) when no filter is installed", lambda r: is_ok(r, keep)),
            "err": ("the filter's error is returned", lambda r: isinstance(r, Enum) and r.variant == "Err" and isinstance(r.payload[0], Obj) and r.payload[0].kind == "Residual" and same(r.payload[0].err, ferr)),
            "Keep": ("Verdict::Keep -> Keep", lambda r: is_ok(r, keep)),
            "Destroy": ("Verdict::Destroy -> Drop", lambda r: is_ok(r, drop)),
            "Remove": ("Verdict::Remove -> Replace((Tombstone, empty))", lambda r: is_ok(r, replace_with("Tombstone"))),
            "RemoveWeak": ("Verdict::RemoveWeak -> Replace((WeakTombstone, empty))", lambda r: is_ok(r, replace_with("WeakTombstone"))),
            "ReplaceValue": ("Verdict::ReplaceValue(v) -> handle_write(&item.key, v).map(Replace)", handle_write_ok),
        }
        bad, covered = [], set()
        for t, v in res.items():
            if v != "sat":
                continue
            case, k = t.split(":")
            covered.add(case)
            ret, path = results[int(k)]
            if not expect[case][1](ret):
                bad.append((case, expect[case][0], path))
            if case not in ("nofilter",) and not seen.get("args_ok"):
                bad.append((case, "the filter is not called with (this item, the adapter's context)", path))
        out["covered_outcomes"] = sorted(covered)
        out["feasible_paths"] = len(results)
        out["z3"] = out["cvc5"] = "sat" if bad else "unsat"
        if covered != set(expect) and not bad:
            out.update(verdict="inconclusive", reason="vacuity: cases %s unreachable" % sorted(set(expect) - covered))
        elif bad:
            case, msg, path = bad[0]
            out.update(verdict="refuted", reason="wrong stream verdict for case %s; expected: %s" % (case, msg),
                       path=["  case: %s" % case, "  expected: %s" % msg, "  MIR path: " + " ".join("bb%d" % bb for _, bb in path.trace)])
        else:
            out.update(verdict="proved", reason="")
        return out

    x = XCheck("O17.3 StreamFilterAdapter::filter_item: every CompactionFilter verdict becomes the stream verdict it stands for", fn, runner)
    x.requires = [("", "", "Keep->Keep, Destroy->Drop, Remove->Replace((Tombstone, empty)), RemoveWeak->Replace((WeakTombstone, empty)), ReplaceValue(v)->handle_write(&item.key, v).map(Replace); no filter->Keep; filter error->Err")]
    x.shapes = "n/a (loop-free)"
    return [x]


# ---------------------------------------------------------------------------------------------
# C01 / C13 O1.4: the disk half of a point read - first covering table in level / run order that answers wins
# ---------------------------------------------------------------------------------------------

def point_read_tables(fns):
    fn = mir.find(fns, r"src/tree/mod\.rs[^>]*>::get_internal_entry_from_tables\(")
    itv = mir.find(fns, r"^fn ignore_tombstone_value\(")
    closures = [f for f in fns if f.closure_span() and re.search(r"src/tree/mod\.rs", f.closure_span()) and "get_internal_entry_from_tables" in f.name]
    shapes = [[1], [2], [2, 1], [1, 2], [0, 1, 1], [3]]

    def one_shape(shape, timeout):
        ex = symex.Executor([fn] + closures, [])
        key, seqno = Obj("Key"), ex.sym("seqno", 64)
        khash = ex.sym("key_hash", 64)
        runs, levels = [], []
        for li, n in enumerate(shape):
            rs = []
            for ri in range(n):
                r = len(runs)
                run = Obj("Run%d" % r, r=r)
                runs.append(run)
                rs.append(run)
            levels.append(Obj("Level%d" % li, runs=rs))
        version = Obj("Version")
        sy = {}
        for r in range(len(runs)):
            sy[r] = dict(covers=ex.symb("covers_%d" % r), err=ex.symb("err_%d" % r), found=ex.symb("found_%d" % r), tomb=ex.symb("tomb_%d" % r))
        seen = {"args_ok": True}

        def un(v):
            while isinstance(v, Ref) and not isinstance(v.target, tuple):
                v = v.target
            return v

        def m_get_for_key(ex, env, b, a, p, d):
            run, k = un(a[0]), un(a[1])
            if not same(k, key):
                seen["args_ok"] = False
            return _one(Opt(sy[run.r]["covers"], Obj("Table%d" % run.r, r=run.r)))

        def m_table_get(ex, env, b, a, p, d):
            t = un(a[0])
            ok = same(un(a[1]), key) and isinstance(a[2], BV) and a[2].t == seqno.t and isinstance(a[3], BV) and a[3].t == khash.t
            if not ok:
                seen["args_ok"] = False
            s = sy[t.r]
            return _one(symex.Sum2(s["err"], "Ok", "Err", [Opt(s["found"], Obj("Item%d" % t.r, r=t.r))], [Obj("Err%d" % t.r, r=t.r)]))

        def m_is_tomb(ex, env, b, a, p, d):
            it = un(a[0])
            if isinstance(it, Ref):
                it = env[it.target[1]]
            return _one(sy[it.r]["tomb"])

        def m_ignore(ex, env, b, a, p, d):
            return symex.inline_call(ex, itv, [a[0]], p, d)

        models = [
            (r"standard_bloom::builder::Builder::get_hash$", lambda ex, env, b, a, p, d: _one(khash) if same(un(a[0]), key) else _one(ex.sym("hash_of_other", 64))),
            (r"^Version::iter_levels$", lambda ex, env, b, a, p, d: _one(symex.SliceIt(levels))),
            (r"^<version::Level as Deref>::deref$", lambda ex, env, b, a, p, d: _one(un(a[0]))),
            (r"^GenericLevel::<Table>::iter$", lambda ex, env, b, a, p, d: _one(symex.SliceIt(un(a[0]).runs))),
            (r"^<Arc<Run<Table>> as Deref>::deref$", lambda ex, env, b, a, p, d: _one(un(a[0]))),
            (r"^Run::<Table>::get_for_key$", m_get_for_key),
            (r"^(table::)?Table::get$", m_table_get),
            (r"^InternalValue::is_tombstone$", m_is_tomb),
            (r"^ignore_tombstone_value$", m_ignore),
        ] + symex.TRY_MODELS + symex.ITER_MODELS
        ex.models = [(re.compile(r), h) for r, h in models]
        ex.fns_extra = [itv]
        results = []
        ex.run(fn, [Ref(version), Ref(key), seqno], symex.Path(), lambda ret, env, path: results.append((ret, path)))
        n = len(runs)
        hit = ["(and covers_%d (or err_%d found_%d))" % (r, r, r) for r in range(n)]

        def first(r):
            return ["(not %s)" % hit[q] for q in range(r)] + [hit[r]]
        cases = {}
        for r in range(n):
            cases["Err(%d)" % r] = first(r) + ["err_%d" % r]
            cases["Some(%d)" % r] = first(r) + ["(not err_%d)" % r, "(not tomb_%d)" % r]
            cases["Tomb(%d)" % r] = first(r) + ["(not err_%d)" % r, "tomb_%d" % r]
        cases["None"] = ["(not %s)" % h for h in hit]

        def classify(ret):
            if isinstance(ret, Enum) and ret.variant == "Err":
                e = ret.payload[0]
                e = e.err if isinstance(e, Obj) and e.kind == "Residual" else e
                return "Err(%d)" % e.r if isinstance(e, Obj) and e.kind.startswith("Err") else "?"
            if isinstance(ret, Enum) and ret.variant == "Ok" and isinstance(ret.payload[0], Opt):
                o = ret.payload[0]
                c = o.cond.const()
                if c is False:
                    return "NoneOrTomb"
                if c is True and isinstance(o.val, Obj) and o.val.kind.startswith("Item"):
                    return "Some(%d)" % o.val.r
            return "?"
        queries = []
        for k, (ret, path) in enumerate(results):
            for cn, cf in cases.items():
                queries.append(("%d|%s" % (k, cn), path.pc + cf))
        return ex, results, queries, classify, seen

    def runner(timeout):
        allq, meta, decls, paths, assumptions = [], {}, {}, 0, set()
        for si, shape in enumerate(shapes):
            ex, results, queries, classify, seen = one_shape(shape, timeout)
            decls.update(ex.decls)
            assumptions |= ex.assumptions
            paths += len(results)
            meta[si] = (shape, results, classify, seen)
            allq += [("%d/%s" % (si, t), a) for t, a in queries]
        res, dt, raw = symex.solve_parallel(decls, allq, "cvc5int", timeout, 8)
        out = {"nodes": paths, "steps_bound": max(sum(s) for s in shapes), "assertions": sum(len(a) for _, a in allq),
               "violation_disjuncts": len(allq), "z3_s": round(dt, 2), "queries": len(allq), "paths": paths,
               "assumptions": sorted(assumptions) + ["stub: Run::get_for_key(run, key) = arbitrary Option<&Table> per run", "stub: Table::get = arbitrary Result<Option<item>> per table",
                                                     "stub: InternalValue::is_tombstone = arbitrary bool per item"],
               "solvers": "cvc5 1.0 --solve-bv-as-int=sum (deciding) ; z3 5.1.0 (cross-check)"}
        if res is None:
            out.update(verdict="inconclusive", reason="solver: %s" % str(raw)[:200], z3="error")
            return out
        res2, dt2, raw2 = symex.solve_parallel(decls, allq, "z3new", timeout, 8)
        out["cvc5_s"] = round(dt2, 2)
        if res2 is None or any(res[t] != res2[t] for t in res):
            out.update(verdict="inconclusive", reason="cross-check failed or disagrees", z3="error")
            return out
        bad, covered = [], set()
        for t, v in res.items():
            if v != "sat":
                continue
            si, rest = t.split("/")
            k, cn = rest.split("|")
            shape, results, classify, seen = meta[int(si)]
            ret, path = results[int(k)]
            got = classify(ret)
            want = "NoneOrTomb" if cn == "None" or cn.startswith("Tomb") else cn
            covered.add(cn.split("(")[0])
            if got != want:
                bad.append((shape, cn, got, path))
            if not seen["args_ok"]:
                bad.append((shape, "arguments", "a table is probed with a key / seqno / hash other than the caller's", path))
        out["covered_outcomes"] = sorted(covered)
        out["feasible_paths"] = paths
        out["z3"] = out["cvc5"] = "sat" if bad else "unsat"
        if covered != {"Err", "Some", "Tomb", "None"} and not bad:
            out.update(verdict="inconclusive", reason="vacuity: outcome classes %s unreachable" % sorted({"Err", "Some", "Tomb", "None"} - covered))
        elif bad:
            shape, cn, got, path = bad[0]
            out.update(verdict="refuted", reason="runs per level %s: the tables say %s (first covering table that answers, in level / run order) but the function returns %s" % (shape, cn, got),
                       path=["  runs per level: %s" % shape, "  expected outcome: %s   returned: %s" % (cn, got), "  MIR path: " + " ".join("bb%d" % bb for f, bb in path.trace if f == fn.name)])
        else:
            out.update(verdict="proved", reason="")
        return out

    x = XCheck("O1.4 Tree::get_internal_entry_from_tables: the first covering table (levels top-down, runs in order) that answers decides; tombstone -> None; errors propagate", fn, runner)
    x.requires = [("", "", "result = Err of / item of / None for a tombstone of the first run r (in order) whose table covers the key and whose get returns Err or Some; None if there is none")]
    x.shapes = shapes
    return [x]


# ---------------------------------------------------------------------------------------------
# C15 O15.3: drop_range::Strategy::choose drops exactly the tables whose key range lies inside the bounds
# ---------------------------------------------------------------------------------------------

def drop_range_choose(fns):
    fn = mir.find(fns, r"src/compaction/drop_range\.rs[^>]*>::choose\(")
    closures = [f for f in fns if f.closure_span() and "src/compaction/drop_range.rs" in f.closure_span()]
    shapes = [[[1]], [[2]], [[1, 1]], [[1], [2]], [[2], [1]], [[], [1], [1]]]  # levels -> runs -> number of tables

    def one_shape(shape):
        ex = symex.Executor([fn] + closures, [])
        bounds = Obj("Bounds")
        strategy = Rec("Strategy", "compaction/drop_range.rs", "Strategy", {"bounds": bounds})
        state, hidden = Obj("State"), Obj("HiddenSet")
        tables, runs, levels = [], [], []
        for li, lv in enumerate(shape):
            rs = []
            for n in lv:
                r = len(runs)
                ts = []
                for k in range(n):
                    t = len(tables)
                    tb = Obj("Table%d" % t, t=t, run=r, pos=k)
                    tables.append(tb)
                    ts.append(tb)
                run = Obj("Run%d" % r, r=r, tables=ts)
                runs.append(run)
                rs.append(run)
            levels.append(Obj("Level%d" % li, runs=rs))
        for t in range(len(tables)):
            ex.symb("contains_%d" % t)
            ex.symb("hidden_%d" % t)
            ex.sym("id_%d" % t, 64)
        seen = {"ok": True}

        def un(v):
            while isinstance(v, Ref) and not isinstance(v.target, tuple):
                v = v.target
            return v

        def m_overlap(ex, env, b, a, p, d):
            run = un(a[0])
            if not same(un(a[1]), bounds):
                seen["ok"] = False
            n = len(run.tables)
            sel = ex.sym("overlap_sel_%d" % run.r, 8)
            alts, code = [], 0
            # contract (decided separately by Kani O3.4 / O15.1): the index range covers every table the bounds contain
            outside_all = ["(not contains_%d)" % t.t for t in run.tables]
            alts.append((Opt(B(False), None), ["(= %s (_ bv%d 8))" % (sel.t, code)] + outside_all))
            for lo in range(n):
                for hi in range(lo, n):
                    code += 1
                    out = ["(not contains_%d)" % t.t for t in run.tables if not (lo <= t.pos <= hi)]
                    alts.append((Opt(B(True), Tup([bvconst(lo, 64), bvconst(hi, 64)])), ["(= %s (_ bv%d 8))" % (sel.t, code)] + out))
            ex.assumptions.add("stub: Run::range_overlap_indexes = any index range (or None) that covers every table the bounds contain (contract decided by O3.4 / O15.1)")
            return alts

        def m_and_then(ex, env, b, a, p, d):
            o, clo = a
            c = o.cond.const()
            if c is False:
                return _one(Opt(B(False), None))
            if c is None:
                raise MirError("and_then on a symbolic Option")
            return [(r, cs) for r, cs in ex.call_closure(clo, [o.val], p, d)]

        def m_range_new(ex, env, b, a, p, d):
            return _one(Obj("RangeIncl", lo=symex.bv_is_const(a[0]), hi=symex.bv_is_const(a[1])))

        def m_slice_get(ex, env, b, a, p, d):
            run, rg = un(a[0]), a[1]
            if rg.lo is None or rg.hi is None:
                raise MirError("slice::get with symbolic range")
            if rg.hi >= len(run.tables) or rg.lo > rg.hi + 1:
                return _one(Opt(B(False), None))
            return _one(Opt(B(True), Obj("Slice", items=run.tables[rg.lo:rg.hi + 1])))

        def m_unwrap_or_default_slice(ex, env, b, a, p, d):
            o = a[0]
            c = o.cond.const()
            if c is None:
                raise MirError("unwrap_or_default on a symbolic Option")
            return _one(o.val if c else Obj("Slice", items=[]))

        def m_contains(ex, env, b, a, p, d):
            if not same(un(a[0]), bounds):
                seen["ok"] = False
            kr = un(a[1])
            return _one(B("contains_%d" % kr.t))

        def m_collect_set(ex, env, b, a, p, d):
            outs = []
            for vals, cs in symex.drain(ex, symex.as_iter(a[0]), p, d):
                outs.append((Obj("Set", items=list(vals)), cs, None))
            return outs if len(outs) > 1 else [(outs[0][0], outs[0][1])]

        def m_any(ex, env, b, a, p, d):
            it, loc = symex._resolve(env, a[0])
            acc = B(False)
            for vals, cs in symex.drain(ex, symex.as_iter(it), p, d):
                if cs:
                    raise MirError("any over a forking iterator")
                for v in vals:
                    rs = ex.call_closure(a[1], [Ref(v)], p, d)
                    if len(rs) != 1 or rs[0][1]:
                        raise MirError("any closure forks")
                    acc = symex.bor(acc, rs[0][0])
            return _one(acc)

        def m_is_hidden(ex, env, b, a, p, d):
            m = re.fullmatch(r"id_(\d+)", a[1].t) if isinstance(a[1], BV) else None
            if not m or not same(un(a[0]), hidden):
                raise MirError("is_hidden of %r" % (a[1],))
            return _one(B("hidden_%s" % m.group(1)))

        models = [
            (r"^Version::iter_levels$", lambda ex, env, b, a, p, d: _one(symex.SliceIt(levels))),
            (r"^<version::Level as Deref>::deref$", lambda ex, env, b, a, p, d: _one(un(a[0]))),
            (r"^GenericLevel::<Table>::iter$", lambda ex, env, b, a, p, d: _one(symex.SliceIt(un(a[0]).runs))),
            (r"^<Arc<Run<Table>> as Deref>::deref$", lambda ex, env, b, a, p, d: _one(un(a[0]))),
            (r"^<Run<Table> as Deref>::deref$", lambda ex, env, b, a, p, d: _one(un(a[0]))),
            (r"^Run::<Table>::range_overlap_indexes::<", m_overlap),
            (r"^Option::<\(usize, usize\)>::and_then::<", m_and_then),
            (r"^std::ops::RangeInclusive::<usize>::new$", m_range_new),
            (r"^core::slice::<impl \[Table\]>::get::<std::ops::RangeInclusive<usize>>$", m_slice_get),
            (r"^Option::<&\[Table\]>::unwrap_or_default$", m_unwrap_or_default_slice),
            (r"^core::slice::<impl \[Table\]>::iter$", lambda ex, env, b, a, p, d: _one(symex.SliceIt(un(a[0]).items))),
            (r"^<Table as Ranged>::key_range$", lambda ex, env, b, a, p, d: _one(Obj("KeyRange%d" % un(a[0]).t, t=un(a[0]).t))),
            (r"^OwnedBounds::contains$", m_contains),
            (r"^Table::id$", lambda ex, env, b, a, p, d: _one(BV(64, "id_%d" % un(a[0]).t))),
            (r"as Iterator>::collect::<std::collections::HashSet<u64,", m_collect_set),
            (r"^std::collections::HashSet::<u64, [^>]*>::iter$", lambda ex, env, b, a, p, d: _one(symex.SliceIt((env[a[0].target[1]] if isinstance(a[0], Ref) and isinstance(a[0].target, tuple) else un(a[0])).items))),
            (r"as Iterator>::any::<", m_any),
            (r"^CompactionState::hidden_set$", lambda ex, env, b, a, p, d: _one(hidden) if same(un(a[0]), state) else _one(Obj("OtherHidden"))),
            (r"^HiddenSet::is_hidden$", m_is_hidden),
        ] + symex.ITER_MODELS
        ex.models = [(re.compile(r), h) for r, h in models]
        results = []
        ex.run(fn, [Ref(strategy), Ref(Obj("Version")), Ref(Obj("Config")), Ref(state)], symex.Path(), lambda ret, env, path: results.append((ret, path)))
        return ex, results, tables, seen

    def runner(timeout):
        allq, meta, decls, paths, assumptions = [], {}, {}, 0, set()
        for si, shape in enumerate(shapes):
            ex, results, tables, seen = one_shape(shape)
            decls.update(ex.decls)
            assumptions |= ex.assumptions
            paths += len(results)
            meta[si] = (shape, results, tables, seen)
            n = len(tables)
            glob = ["(distinct %s)" % " ".join("id_%d" % t for t in range(n))] if n > 1 else []
            for k, (ret, path) in enumerate(results):
                pc = glob + path.pc
                allq.append(("%d/feasible:%d" % (si, k), pc))
                if not isinstance(ret, Enum):
                    raise MirError("choose returned %r" % (ret,))
                anyhid = "(or false %s)" % " ".join("(and contains_%d hidden_%d)" % (t, t) for t in range(n))
                if ret.variant == "DoNothing":
                    # allowed only if some table inside the bounds is hidden
                    allq.append(("%d/R2:%d" % (si, k), pc + ["(not %s)" % anyhid]))
                elif ret.variant == "Drop":
                    ids = set()
                    for it in ret.payload[0].items:
                        ids.add(int(re.fullmatch(r"id_(\d+)", it.t).group(1)))
                    wrong = ["contains_%d" % t for t in range(n) if t not in ids] + ["(not contains_%d)" % t for t in ids]
                    allq.append(("%d/R1:%d" % (si, k), pc + ["(or false %s)" % " ".join(wrong)]))
                    allq.append(("%d/R3:%d" % (si, k), pc + [anyhid]))
                else:
                    raise MirError("choose returned Choice::%s" % ret.variant)
        res, dt, raw = symex.solve_parallel(decls, allq, "cvc5int", timeout, 8)
        out = {"nodes": paths, "steps_bound": 3, "assertions": sum(len(a) for _, a in allq), "violation_disjuncts": len(allq),
               "z3_s": round(dt, 2), "queries": len(allq), "paths": paths, "assumptions": sorted(assumptions) + [
                   "stub: OwnedBounds::contains(bounds, table.key_range()) = arbitrary bool per table (the function itself is decided by Kani O15.1)",
                   "stub: HiddenSet::is_hidden = arbitrary bool per table id"],
               "solvers": "cvc5 1.0 --solve-bv-as-int=sum (deciding) ; z3 5.1.0 (cross-check)"}
        if res is None:
            out.update(verdict="inconclusive", reason="solver: %s" % str(raw)[:200], z3="error")
            return out
        res2, dt2, raw2 = symex.solve_parallel(decls, allq, "z3new", timeout, 8)
        out["cvc5_s"] = round(dt2, 2)
        if res2 is None or any(res[t] != res2[t] for t in res):
            out.update(verdict="inconclusive", reason="cross-check failed or disagrees", z3="error")
            return out
        feas = [t for t, v in res.items() if "/feasible:" in t and v == "sat"]
        viol = [t for t, v in res.items() if "/feasible:" not in t and v == "sat"]
        kinds = set()
        for t in feas:
            si, k = int(t.split("/")[0]), int(t.split(":")[1])
            ret = meta[si][1][k][0]
            kinds.add(ret.variant + ("|%d" % len(ret.payload[0].items) if ret.variant == "Drop" else ""))
        out["covered_outcomes"] = sorted(kinds)
        out["feasible_paths"] = len(feas)
        out["z3"] = out["cvc5"] = "sat" if viol else "unsat"
        bad_args = [si for si in meta if not meta[si][3]["ok"]]
        if not {"DoNothing", "Drop|0", "Drop|1", "Drop|2"} <= kinds and not (viol or bad_args):
            out.update(verdict="inconclusive", reason="vacuity: outcomes %s" % sorted(kinds))
        elif viol or bad_args:
            if bad_args:
                out.update(verdict="refuted", reason="overlap search or containment test is applied to bounds other than the strategy's", path=[])
                return out
            t = viol[0]
            si, rest = t.split("/")
            req, k = rest.split(":")
            shape, results, tables, seen = meta[int(si)]
            ret, path = results[int(k)]
            want = sorted(n for n in decls if re.match(r"(contains|hidden)_\d+$", n))
            msgs = {"R1": "the dropped set is not exactly the set of tables whose key range lies inside the bounds",
                    "R2": "nothing is dropped although no table inside the bounds is hidden",
                    "R3": "tables are dropped although one of them is hidden (being compacted)"}
            lines = ["  tables per run per level: %s" % shape, "  result: Choice::%s %s" % (ret.variant, [it.t for it in ret.payload[0].items] if ret.variant == "Drop" else ""),
                     "  violated: %s" % msgs[req], "  MIR path: " + " ".join("bb%d" % bb for f, bb in path.trace if f == fn.name)]
            out.update(verdict="refuted", reason=msgs[req], path=lines)
        else:
            out.update(verdict="proved", reason="")
        return out

    x = XCheck("O15.3 drop_range::Strategy::choose drops exactly the tables contained in the bounds (or nothing if one of them is hidden)", fn, runner)
    x.requires = [("R1", "", "Drop(ids): ids = { table | bounds.contains(table.key_range()) }"), ("R2", "", "DoNothing only if a contained table is hidden"),
                  ("R3", "", "never Drop while a contained table is hidden")]
    x.shapes = shapes
    return [x]


# ---------------------------------------------------------------------------------------------
# C04 O4.1: what Version::encode_into writes is what version::recovery::recover reads back (tables + blob files)
# ---------------------------------------------------------------------------------------------

def version_roundtrip(fns):
    enc = mir.find(fns, r"src/version/mod\.rs[^>]*>::encode_into\(")
    rec = mir.find(fns, r"^fn recover\(_1: &Path\)")
    closures = [f for f in fns if f.closure_span() and re.search(r"src/version/(mod|recovery)\.rs", f.closure_span())]
    shapes = [[[1]], [[2]], [[1, 1]], [[2], [1]], [[], [1, 2]], [[3]]]

    def un(v):
        while isinstance(v, Ref) and not isinstance(v.target, tuple):
            v = v.target
        return v

    def run_shape(shape, nblob):
        ex = symex.Executor([enc, rec] + closures, [])
        # ---------- the version that is written
        tables, levels = [], []
        for li, lv in enumerate(shape):
            rs = []
            for n in lv:
                ts = []
                for _ in range(n):
                    t = len(tables)
                    tb = Obj("Table%d" % t, t=t)
                    tables.append(tb)
                    ts.append(tb)
                rs.append(Obj("Run", tables=ts))
            levels.append(Obj("Level", runs=rs))
        for t in range(len(tables)):
            ex.sym("tid_%d" % t, 64), ex.sym("tsum_%d" % t, 128), ex.sym("tgs_%d" % t, 64)
        blobs = [Obj("Blob%d" % i, i=i) for i in range(nblob)]
        for i in range(nblob):
            ex.sym("bid_%d" % i, 64), ex.sym("bsum_%d" % i, 128)
        tree_type = ex.sym("tree_type", 8)
        gcs = Obj("GcStats")

        class BlobInner(Obj):
            def field(self, ex2, i, ty):
                if "Checksum" in ty:
                    return Obj("Checksum", term="bsum_%d" % self.i)
                raise MirError("blob_file::Inner field %d (%s)" % (i, ty))

        class VInner(Rec):
            pass
        vinner = Rec("VersionInner", "version/mod.rs", "VersionInner", {"tree_type": tree_type, "blob_files": Obj("BlobList"), "gc_stats": gcs})
        version = Obj("Version")
        writer = Obj("Writer", sections={}, cur=None, order=[])

        def w_start(ex2, env, b, a, p, d):
            w = un(a[0]) if not (isinstance(a[0], Ref) and isinstance(a[0].target, tuple)) else env[a[0].target[1]]
            w = un(w)
            name = a[1].s
            w.cur = name
            w.sections[name] = []
            w.order.append(name)
            return _one(symex.Sum2(B(False), "Ok", "Err", [Tup([])], [Obj("IoErr")]))

        def w_int(width):
            def f(ex2, env, b, a, p, d):
                w = un(env[a[0].target[1]] if isinstance(a[0], Ref) and isinstance(a[0].target, tuple) else a[0])
                v = a[1]
                if not (isinstance(v, BV) and v.w == width):
                    raise MirError("write_u%d of %r" % (width, v))
                w.sections[w.cur].append((width, v.t))
                return _one(symex.Sum2(B(False), "Ok", "Err", [Tup([])], [Obj("IoErr")]))
            return f

        def w_all(ex2, env, b, a, p, d):
            w = un(env[a[0].target[1]] if isinstance(a[0], Ref) and isinstance(a[0].target, tuple) else a[0])
            w.sections[w.cur].append(("bytes", "opaque"))
            return _one(symex.Sum2(B(False), "Ok", "Err", [Tup([])], [Obj("IoErr")]))

        def w_gc(ex2, env, b, a, p, d):
            w = un(env[a[1].target[1]] if isinstance(a[1], Ref) and isinstance(a[1].target, tuple) else a[1])
            w.sections[w.cur].append(("gc_stats", "opaque"))
            return _one(symex.Sum2(B(False), "Ok", "Err", [Tup([])], [Obj("Err")]))
        ident = lambda ex2, env, b, a, p, d: _one(un(a[0]))
        enc_models = [
            (r"^sfa::Writer::<.*>::start::<&str>$", w_start),
            (r"as WriteBytesExt>::write_u8$", w_int(8)),
            (r"as WriteBytesExt>::write_u32::<LittleEndian>$", w_int(32)),
            (r"as WriteBytesExt>::write_u64::<LittleEndian>$", w_int(64)),
            (r"as WriteBytesExt>::write_u128::<LittleEndian>$", w_int(128)),
            (r"as std::io::Write>::write_all$", w_all),
            (r"^core::str::<impl str>::as_bytes$", ident),
            (r"^<FormatVersion as Into<u8>>::into$", lambda ex2, env, b, a, p, d: _one(ex2.sym("format_version", 8))),
            (r"^<TreeType as Into<u8>>::into$", lambda ex2, env, b, a, p, d: _one(a[0] if isinstance(a[0], BV) else tree_type)),
            (r"^<u8 as From<ChecksumType>>::from$", lambda ex2, env, b, a, p, d: _one(ex2.sym("checksum_type_tag", 8))),
            (r"^<Version as Deref>::deref$", lambda ex2, env, b, a, p, d: _one(vinner)),
            (r"^Version::level_count$", lambda ex2, env, b, a, p, d: _one(bvconst(len(levels), 64))),
            (r"^Version::iter_levels$", lambda ex2, env, b, a, p, d: _one(symex.SliceIt(levels))),
            (r"^<version::Level as Deref>::deref$", ident),
            (r"^<GenericLevel<Table> as Deref>::deref$", lambda ex2, env, b, a, p, d: _one(Obj("Slice", items=un(a[0]).runs))),
            (r"^GenericLevel::<Table>::iter$", lambda ex2, env, b, a, p, d: _one(symex.SliceIt(un(a[0]).runs))),
            (r"^<Arc<Run<Table>> as Deref>::deref$", ident),
            (r"^<Run<Table> as Deref>::deref$", lambda ex2, env, b, a, p, d: _one(Obj("Slice", items=un(a[0]).tables))),
            (r"^core::slice::<impl \[Table\]>::iter$", lambda ex2, env, b, a, p, d: _one(symex.SliceIt(un(a[0]).items))),
            (r"^Table::id$", lambda ex2, env, b, a, p, d: _one(BV(64, "tid_%d" % un(a[0]).t))),
            (r"^Table::checksum$", lambda ex2, env, b, a, p, d: _one(Obj("Checksum", term="tsum_%d" % un(a[0]).t))),
            (r"^checksum::Checksum::into_u128$", lambda ex2, env, b, a, p, d: _one(BV(128, un(a[0]).term))),
            (r"^Table::global_seqno$", lambda ex2, env, b, a, p, d: _one(BV(64, "tgs_%d" % un(a[0]).t))),
            (r"^<Arc<BlobFileList> as Deref>::deref$", ident),
            (r"^BlobFileList::len$", lambda ex2, env, b, a, p, d: _one(bvconst(nblob, 64))),
            (r"^BlobFileList::iter$", lambda ex2, env, b, a, p, d: _one(symex.SliceIt(blobs))),
            (r"^BlobFile::id$", lambda ex2, env, b, a, p, d: _one(BV(64, "bid_%d" % un(a[0]).i))),
            (r"^<Arc<blob_file::Inner> as Deref>::deref$", lambda ex2, env, b, a, p, d: _one(BlobInner("BlobInner", i=un(a[0]).i if hasattr(un(a[0]), "i") else un(a[0]).blob.i))),
            (r"^<Arc<FragmentationMap> as Deref>::deref$", ident),
            (r"^<FragmentationMap as Encode>::encode_into::<", w_gc),
            (r"^<std::collections::hash_map::Values<'_, u64, BlobFile> as Iterator>::next$", symex.m_iter_next),
        ] + symex.TRY_MODELS + symex.ITER_MODELS
        ex.models = [(re.compile(r), h) for r, h in enc_models]

        class BlobObj(Obj):
            def field(self, ex2, i, ty):  # BlobFile(Arc<Inner>) newtype: .0
                return Obj("BlobArc", blob=self)
        for i in range(nblob):
            blobs[i] = BlobObj("Blob%d" % i, i=i)
        wres = []
        ex.run(enc, [Ref(version), Ref(writer)], symex.Path(), lambda ret, env, path: wres.append((ret, path, env)))
        if len(wres) != 1:
            raise MirError("encode_into forks (%d paths) with I/O errors switched off" % len(wres))
        ret, wpath, wenv = wres[0]
        if not (isinstance(ret, Enum) and ret.variant == "Ok"):
            raise MirError("encode_into does not return Ok")
        written = writer.sections
        # ---------- read it back
        notes = []

        def r_section(ex2, env, b, a, p, d):
            name = a[1].s if isinstance(a[1], Obj) and a[1].kind == "Lit" else None
            if name not in written:
                notes.append("section %r is read but never written" % name)
                return _one(Opt(B(False), None))
            return _one(Opt(B(True), Obj("TocEntry", name=name)))

        def r_ok_or(ex2, env, b, a, p, d):
            o = a[0]
            return _one(symex.Sum2(symex.bnot(o.cond), "Ok", "Err", [o.val], [a[1]]))

        def r_buf_reader(ex2, env, b, a, p, d):
            e = un(a[0])
            return _one(symex.Sum2(B(False), "Ok", "Err", [Obj("Reader", name=e.name, pos=0)], [Obj("IoErr")]))

        def r_int(width):
            def f(ex2, env, b, a, p, d):
                r = env[a[0].target[1]] if isinstance(a[0], Ref) and isinstance(a[0].target, tuple) else un(a[0])
                r = un(r)
                evs = written[r.name]
                if r.pos >= len(evs):
                    notes.append("section %s: read of u%d past the %d fields written" % (r.name, width, len(evs)))
                    return _one(symex.Sum2(B(True), "Ok", "Err", [bvconst(0, width)], [Obj("IoErr")]))
                w, t = evs[r.pos]
                r.pos += 1
                if w != width:
                    notes.append("section %s field %d: written as %s, read as u%d" % (r.name, r.pos - 1, "u%s" % w if isinstance(w, int) else w, width))
                    return _one(symex.Sum2(B(False), "Ok", "Err", [ex2.sym("garbage_%d" % len(notes), width)], [Obj("IoErr")]))
                return _one(symex.Sum2(B(False), "Ok", "Err", [BV(width, t)], [Obj("IoErr")]))
            return f

        def r_range_next(ex2, env, b, a, p, d):
            rg = env[a[0].target[1]] if isinstance(a[0], Ref) and isinstance(a[0].target, tuple) else un(a[0])
            s0, e0 = symex.bv_is_const(rg.fields["start"]), symex.bv_is_const(rg.fields["end"])
            if s0 is None or e0 is None:
                raise MirError("loop bound read from the file is not concrete")
            if s0 < e0:
                rg.fields["start"] = bvconst(s0 + 1, rg.fields["start"].w)
                return _one(Opt(B(True), bvconst(s0, rg.fields["start"].w)))
            return _one(Opt(B(False), None))

        def r_vec_new(ex2, env, b, a, p, d):
            return _one(Obj("Vec", items=[]))

        def r_vec_push(ex2, env, b, a, p, d):
            v = env[a[0].target[1]] if isinstance(a[0], Ref) and isinstance(a[0].target, tuple) else un(a[0])
            un(v).items.append(a[1])
            return _one(Tup([]))

        def r_sort(ex2, env, b, a, p, d):
            v = un(env[a[0].target[1]] if isinstance(a[0], Ref) and isinstance(a[0].target, tuple) else a[0])
            v.sorted_by = a[1]
            return _one(Tup([]))

        def r_gc(ex2, env, b, a, p, d):
            r = un(env[a[0].target[1]] if isinstance(a[0], Ref) and isinstance(a[0].target, tuple) else a[0])
            evs = written[r.name]
            okk = r.pos < len(evs) and evs[r.pos][0] == "gc_stats"
            if not okk:
                notes.append("section %s: fragmentation map decoded where %s was written" % (r.name, evs[r.pos] if r.pos < len(evs) else "nothing"))
            r.pos += 1
            return _one(symex.Sum2(B(False), "Ok", "Err", [gcs], [Obj("Err")]))
        opaque_ok = lambda kind: (lambda ex2, env, b, a, p, d: _one(symex.Sum2(B(False), "Ok", "Err", [Obj(kind)], [Obj("Err")])))
        rec_models = [
            (r"^get_current_version_and_checksum$", lambda ex2, env, b, a, p, d: _one(symex.Sum2(B(False), "Ok", "Err", [Tup([ex2.sym("cur_version_id", 64), Obj("Checksum", term="cur_sum")])], [Obj("Err")]))),
            (r"^core::fmt::rt::Argument::<'_>::new_", lambda ex2, env, b, a, p, d: _one(Obj("FmtArg"))),
            (r"^Arguments::<'_>::new::<", lambda ex2, env, b, a, p, d: _one(Obj("FmtArgs"))),
            (r"^format$", lambda ex2, env, b, a, p, d: _one(Obj("String"))),
            (r"^must_use::<String>$", ident),
            (r"^Path::join::<", lambda ex2, env, b, a, p, d: _one(Obj("PathBuf"))),
            (r"^<log::Level as PartialOrd<LevelFilter>>::le$", lambda ex2, env, b, a, p, d: _one(B(False))),
            (r"^max_level$", lambda ex2, env, b, a, p, d: _one(Obj("LevelFilter"))),
            (r"^<PathBuf as Deref>::deref$", ident),
            (r"^File::open::<", opaque_ok("File")),
            (r"^verify_checksum::<File>$", lambda ex2, env, b, a, p, d: _one(symex.Sum2(B(False), "Ok", "Err", [Tup([])], [Obj("Err")]))),
            (r"::inspect_err::<", lambda ex2, env, b, a, p, d: _one(a[0])),
            (r"^sfa::Reader::new::<", opaque_ok("SfaReader")),
            (r"^sfa::Reader::toc$", lambda ex2, env, b, a, p, d: _one(Obj("Toc"))),
            (r"^Vec::<.*>::new$", r_vec_new),
            (r"^Vec::<.*>::with_capacity$", r_vec_new),
            (r"^Vec::<.*>::push$", r_vec_push),
            (r"^<Vec<.*> as DerefMut>::deref_mut$", lambda ex2, env, b, a, p, d: _one(un(env[a[0].target[1]] if isinstance(a[0], Ref) and isinstance(a[0].target, tuple) else a[0]))),
            (r"^Toc::section$", r_section),
            (r"^Option::<&TocEntry>::ok_or::<error::Error>$", r_ok_or),
            (r"^TocEntry::buf_reader$", r_buf_reader),
            (r"as ReadBytesExt>::read_u8$", r_int(8)),
            (r"as ReadBytesExt>::read_u32::<LittleEndian>$", r_int(32)),
            (r"as ReadBytesExt>::read_u64::<LittleEndian>$", r_int(64)),
            (r"as ReadBytesExt>::read_u128::<LittleEndian>$", r_int(128)),
            (r"^<std::ops::Range<u(8|32)> as IntoIterator>::into_iter$", lambda ex2, env, b, a, p, d: _one(a[0])),
            (r"^<std::ops::Range<u(8|32)> as Iterator>::next$", r_range_next),
            (r"^checksum::Checksum::from_raw$", lambda ex2, env, b, a, p, d: _one(Obj("Checksum", term=a[0].t))),
            (r"^std::slice::<impl \[\(u64, checksum::Checksum\)\]>::sort_by_key::<u64,", r_sort),
        ] + symex.COMMON_MODELS + [
            (r"^<FragmentationMap as Decode>::decode_from::<", r_gc),
            (r"^<TreeType as TryFrom<u8>>::try_from$", lambda ex2, env, b, a, p, d: _one(symex.Sum2(B(False), "Ok", "Err", [Obj("TreeType", term=a[0].t)], [Tup([])]))),
            (r"^std::result::Result::<TreeType, \(\)>::map_err::<", lambda ex2, env, b, a, p, d: _one(a[0])),
        ] + symex.TRY_MODELS
        ex.models = [(re.compile(r), h) for r, h in rec_models]
        rres = []
        ex.run(rec, [Ref(Obj("Folder"))], symex.Path(), lambda ret, env, path: rres.append((ret, path)))
        return ex, written, rres, notes, tables, blobs, shape

    def runner(timeout):
        bad, paths, nq, decls_all = [], 0, 0, {}
        queries, meta = [], {}
        t0 = time.time()
        for si, shape in enumerate(shapes):
            nblob = si % 3
            ex, written, rres, notes, tables, blobs, _ = run_shape(shape, nblob)
            decls_all.update(ex.decls)
            paths += len(rres)
            if notes:
                bad.append((shape, notes[0], None))
                continue
            oks = [(r, p) for r, p in rres if isinstance(r, Enum) and r.variant == "Ok"]
            if not oks or len(rres) != len(oks):
                bad.append((shape, "recover does not return Ok on a version file that was written without error (%d paths, %d Ok)" % (len(rres), len(oks)), None))
                continue
            for oi, (okret, okpath) in enumerate(oks):
                recv = okret.payload[0]
                if not isinstance(recv, symex.Agg):
                    raise MirError("recover returns %r" % (recv,))
                lv = recv.fields.get("table_ids")
                got = [[[t for t in r.items] for r in l.items] for l in lv.items]
                want_shape = [[n for n in l] for l in shape]
                if [[len(r) for r in l] for l in got] != want_shape:
                    bad.append((shape, "recovered level / run / table structure %s differs from the written one" % [[len(r) for r in l] for l in got], None))
                    continue
                k = 0
                diffs = []
                for l in got:
                    for r in l:
                        for t in r:
                            f = t.fields
                            diffs.append("(not (= %s tid_%d))" % (f["id"].t, k))
                            diffs.append("(not (= %s tsum_%d))" % (f["checksum"].term, k))
                            diffs.append("(not (= %s tgs_%d))" % (f["global_seqno"].t, k))
                            k += 1
                bl = recv.fields.get("blob_file_ids")
                if len(bl.items) != len(blobs):
                    bad.append((shape, "recovered %d blob files, %d were written" % (len(bl.items), len(blobs)), None))
                    continue
                # the blob file list is sorted by id on recovery (it is a map on the writing side): compare as sets of pairs
                pairs_w = ["(and (= %s bid_%d) (= %s bsum_%d))" % ("%s", i, "%s", i) for i in range(len(blobs))]
                for it in bl.items:
                    alts = ["(and (= %s bid_%d) (= %s bsum_%d))" % (it.items[0].t, i, it.items[1].term, i) for i in range(len(blobs))]
                    diffs.append("(not (or false %s))" % " ".join(alts))
                tt = recv.fields.get("tree_type")
                if isinstance(tt, Obj) and tt.kind == "TreeType":
                    diffs.append("(not (= %s tree_type))" % tt.term)
                else:
                    bad.append((shape, "tree type is not read back from the file", None))
                    continue
                if not same(recv.fields.get("gc_stats"), Obj("GcStats")):
                    bad.append((shape, "fragmentation map is not read back from its section", None))
                    continue
                if diffs:
                    distinct = ["(distinct %s)" % " ".join("bid_%d" % i for i in range(len(blobs)))] if len(blobs) > 1 else []
                    queries.append(("%d.%d" % (si, oi), distinct + okpath.pc + ["(or %s)" % " ".join(diffs)]))
                    meta["%d.%d" % (si, oi)] = shape
        out = {"nodes": paths, "steps_bound": 3, "assertions": sum(len(a) for _, a in queries), "violation_disjuncts": len(queries),
               "queries": len(queries), "paths": paths, "feasible_paths": paths, "z3_s": 0.0,
               "assumptions": ["I/O never fails on either side (failure behaviour is the subject of O5.1 / O10.6b)", "the `current` pointer and the checksum verification are stubbed to succeed (decided by O10.6 / O10.6b)",
                               "sfa's table of contents maps a section name to exactly the bytes written between start(name) and the next start", "logging is disabled",
                               "the fragmentation map's own codec is opaque (one field)", "byteorder read_uN / write_uN::<LittleEndian> are inverse for equal N"],
               "solvers": "cvc5 1.0 --solve-bv-as-int=sum (deciding) ; z3 5.1.0 (cross-check)"}
        if queries:
            res, dt, raw = symex.solve_batch(decls_all, queries, "cvc5int", timeout)
            res2, dt2, raw2 = symex.solve_batch(decls_all, queries, "z3new", timeout)
            out.update(z3_s=round(dt, 2), cvc5_s=round(dt2, 2))
            if res is None or res2 is None or any(res[t] != res2[t] for t in res):
                out.update(verdict="inconclusive", reason="solver: %s / %s" % (str(raw)[:150], str(raw2)[:150]), z3="error")
                return out
            for t, v in res.items():
                if v == "sat":
                    bad.append((meta[t], "a recovered table / blob file field differs from the value written (field order, width or a transformation)", None))
        out["z3"] = out["cvc5"] = "sat" if bad else "unsat"
        if bad:
            shape, msg, _ = bad[0]
            out.update(verdict="refuted", reason=msg, path=["  tables per run per level: %s" % shape, "  %s" % msg])
        else:
            out.update(verdict="proved", reason="")
        return out

    x = XCheck("O4.1 version file round trip: recover() rebuilds exactly the levels / runs / tables / blob files / tree type that Version::encode_into wrote", enc, runner)
    x.requires = [("", "", "same level / run / table structure in the same order; per table (id, checksum, global_seqno) equal; blob file (id, checksum) list equal; tree type and fragmentation map read from their sections; every section read was written, field widths agree")]
    x.shapes = shapes
    return [x]


import time


# ---------------------------------------------------------------------------------------------
# C01 / C04 O4.5: a flush adds its tables and removes exactly the flushed sealed memtables in ONE version step
# ---------------------------------------------------------------------------------------------

def register_tables_step(fns):
    outer = mir.find(fns, r"src/tree/mod\.rs[^>]*>::register_tables\(")
    up = [b for b in outer.blocks.values() if not b.cleanup and b.kind == "call" and re.search(r"SuperVersions::upgrade_version::<", b.callee)]
    if len(up) != 1:
        raise MirError("register_tables: expected exactly one upgrade_version call")
    spans = re.findall(r"\{closure@([^}]+)\}", up[0].callee)
    cf = [f for f in fns if f.closure_span() in spans]
    if len(cf) != 1:
        raise MirError("register_tables: closure not found")
    cf = cf[0]
    inner = [f for f in fns if f.closure_span() and "src/tree/mod.rs" in f.closure_span() and "register_tables" in f.name]
    names = struct_fields("version/super_version.rs", "SuperVersion")
    if names[:3] != ["active_memtable", "sealed_memtables", "version"]:
        raise MirError("SuperVersion fields changed: %s" % names)

    def un(v):
        while isinstance(v, Ref) and not isinstance(v.target, tuple):
            v = v.target
        return v

    def runner(timeout):
        bad, paths, decls, queries = [], 0, {}, []
        for nids in (0, 1, 2):
            for frag in ("none", "empty", "nonempty"):
                ex = symex.Executor([cf] + inner, [])
                ids = [ex.sym("mt_id_%d" % i, 64) for i in range(nids)]
                tables, blobs = Obj("TablesSlice"), Opt(B(True), Obj("BlobSlice"))
                fm = Obj("FragMap")
                fragopt = Opt(B(frag != "none"), fm)
                old = Tup([Obj("OldActive"), Obj("OldSealed"), Obj("OldVersion"), ex.sym("old_seqno", 64)])
                clo = Closure(cf.closure_span(), [Ref(tables), Ref(blobs), fragopt, Ref(Ref(Obj("Slice", items=ids)))])

                def m_filter(ex2, env, b, a, p, d):
                    o = a[0]
                    if o.cond.const() is False:
                        return _one(o)
                    rs = ex2.call_closure(a[1], [Ref(o.val)], p, d)
                    if len(rs) != 1 or rs[0][1] or rs[0][0].const() is None:
                        raise MirError("Option::filter predicate is not concrete")
                    return _one(o if rs[0][0].const() else Opt(B(False), None))
                ex.models = [(re.compile(r), h) for r, h in [
                    (r"^<SuperVersion as Clone>::clone$", lambda ex2, env, b, a, p, d: _one(Tup(list(old.items)))),
                    (r"^Option::<FragmentationMap>::filter::<", m_filter),
                    (r"^<FragmentationMap as Deref>::deref$", lambda ex2, env, b, a, p, d: _one(un(a[0]))),
                    (r"^std::collections::HashMap::<u64, FragmentationEntry, [^>]*>::is_empty$", lambda ex2, env, b, a, p, d: _one(B(frag == "empty"))),
                    (r"^Version::with_new_l0_run$", lambda ex2, env, b, a, p, d: _one(Obj("NewVersion", args=a))),
                    (r"^<&\[u64\] as IntoIterator>::into_iter$", lambda ex2, env, b, a, p, d: _one(symex.SliceIt([Ref(x) for x in un(a[0]).items]))),
                    (r"^<log::Level as PartialOrd<LevelFilter>>::le$", lambda ex2, env, b, a, p, d: _one(B(False))),
                    (r"^<Arc<SealedMemtables> as Deref>::deref$", lambda ex2, env, b, a, p, d: _one(un(a[0]))),
                    (r"^SealedMemtables::remove$", lambda ex2, env, b, a, p, d: _one(Obj("Removed", prev=un(a[0]), id=a[1]))),
                    (r"^Arc::<SealedMemtables>::new$", lambda ex2, env, b, a, p, d: _one(a[0])),
                ] + symex.ITER_MODELS]
                res = []
                ex.run(cf, [clo, Ref(old)], symex.Path(), lambda ret, env, path: res.append((ret, path)))
                paths += len(res)
                decls.update(ex.decls)
                if len(res) != 1 or not (isinstance(res[0][0], Enum) and res[0][0].variant == "Ok"):
                    bad.append("closure does not return Ok(super version) on one path (ids=%d, frag=%s)" % (nids, frag))
                    continue
                f = res[0][0].payload[0].items
                if not same(f[0], Obj("OldActive")):
                    bad.append("a flush replaces the active memtable")
                nv = f[2]
                if not (isinstance(nv, Obj) and nv.kind == "NewVersion"):
                    bad.append("the flushed tables are not added to the version (no with_new_l0_run)")
                    continue
                a = nv.args
                if not (same(un(a[0]), Obj("OldVersion")) and same(un(a[1]), tables)):
                    bad.append("with_new_l0_run is not applied to the current version with the flushed tables")
                bo = a[2]
                if not (isinstance(bo, Opt) and bo.cond.const() is True and same(un(bo.val), Obj("BlobSlice"))):
                    bad.append("the blob files written by the flush are not handed to with_new_l0_run")
                fo = a[3]
                want_frag = frag == "nonempty"
                if not (isinstance(fo, Opt) and fo.cond.const() is want_frag and (not want_frag or same(fo.val, fm))):
                    bad.append("the fragmentation diff handed to with_new_l0_run is not `frag_map.filter(non-empty)` (frag=%s)" % frag)
                # sealed memtables: exactly the given ids removed, in order, from the old set
                chain, cur = [], f[1]
                while isinstance(cur, Obj) and cur.kind == "Removed":
                    chain.append(cur.id)
                    cur = cur.prev
                chain.reverse()
                if not same(cur, Obj("OldSealed")) or len(chain) != nids:
                    bad.append("sealed memtables after a flush of %d memtables: %d removals from %s" % (nids, len(chain), getattr(cur, "kind", cur)))
                    continue
                if nids:
                    queries.append(("ids:%d:%s" % (nids, frag), res[0][1].pc + ["(or %s)" % " ".join("(not (= %s mt_id_%d))" % (c.t, i) for i, c in enumerate(chain))]))
        out = {"nodes": paths, "steps_bound": 2, "assertions": sum(len(a) for _, a in queries), "violation_disjuncts": len(queries), "queries": len(queries),
               "paths": paths, "feasible_paths": paths, "z3_s": 0.0, "assumptions": ["logging is disabled", "stub: with_new_l0_run / SealedMemtables::remove are opaque constructors (their own behaviour: O2.1 / not decided)"],
               "solvers": "cvc5 1.0 --solve-bv-as-int=sum (deciding) ; z3 5.1.0 (cross-check)"}
        if queries and not bad:
            r1, dt, raw = symex.solve_batch(decls, queries, "cvc5int", timeout)
            r2, dt2, raw2 = symex.solve_batch(decls, queries, "z3new", timeout)
            out.update(z3_s=round(dt, 2), cvc5_s=round(dt2, 2))
            if r1 is None or r2 is None or any(r1[t] != r2[t] for t in r1):
                out.update(verdict="inconclusive", reason="solver: %s" % str(raw)[:200], z3="error")
                return out
            for t, v in r1.items():
                if v == "sat":
                    bad.append("the sealed memtables removed are not exactly the flushed ids (%s)" % t)
        out["z3"] = out["cvc5"] = "sat" if bad else "unsat"
        if bad:
            out.update(verdict="refuted", reason=bad[0], path=["  " + x for x in bad[:4]])
        else:
            out.update(verdict="proved", reason="")
        return out

    x = XCheck("O4.5 register_tables: one version step adds the flushed tables / blob files and removes exactly the flushed sealed memtables", cf, runner)
    x.requires = [("", "", "new version = current.with_new_l0_run(tables, blob_files, frag_map.filter(non-empty)); sealed memtables = old minus exactly the given ids; active memtable untouched")]
    x.shapes = "0, 1, 2 flushed memtable ids x fragmentation diff absent / empty / non-empty"
    return [x]


# ---------------------------------------------------------------------------------------------
# C01 O1.6: rotate_memtable moves the active memtable - and nothing else - into the sealed set
# ---------------------------------------------------------------------------------------------

def rotate_memtable_step(fns):
    fn = mir.find(fns, r"src/tree/mod\.rs[^>]*>::rotate_memtable\(")
    names = struct_fields("version/super_version.rs", "SuperVersion")
    if names != ["active_memtable", "sealed_memtables", "version", "seqno"]:
        raise MirError("SuperVersion fields changed: %s" % names)

    def un(v):
        while isinstance(v, Ref) and not isinstance(v.target, tuple):
            v = v.target
        return v

    def runner(timeout):
        ex = symex.Executor([fn], [])
        empty = ex.symb("active_is_empty")
        old_seq = ex.sym("old_seqno", 64)
        installed = []

        class TreeRec(Obj):
            def field(self, ex2, i, ty):
                return Obj("TreeField", i=i, ty=ty)
        tree = TreeRec("Tree")
        hist = Obj("History")

        def rsv(env, v):
            while isinstance(v, Ref):
                v = env[v.target[1]] if isinstance(v.target, tuple) else v.target
            return v

        def latest(ex2, env, b, a, p, d):
            return _one(Tup([Obj("OldActive"), Obj("OldSealed"), Obj("OldVersion"), old_seq]))

        def m_replace(ex2, env, b, a, p, d):
            installed.append((a[1], list(p.pc)))
            return _one(Tup([]))
        opq = lambda kind: (lambda ex2, env, b, a, p, d: _one(Obj(kind, args=a)))
        ex.models = [(re.compile(r), h) for r, h in [
            (r"^<Tree as Deref>::deref$", lambda ex2, env, b, a, p, d: _one(tree)),
            (r"^<Arc<TreeInner> as Deref>::deref$", lambda ex2, env, b, a, p, d: _one(tree)),
            (r"^<Arc<std::sync::RwLock<SuperVersions>> as Deref>::deref$", lambda ex2, env, b, a, p, d: _one(Obj("Lock"))),
            (r"^(std::sync::)?RwLock::<SuperVersions>::write$", lambda ex2, env, b, a, p, d: _one(symex.Sum2(B(False), "Ok", "Err", [hist], [Obj("Poison")]))),
            (r"^std::result::Result::<std::sync::RwLockWriteGuard<'_, SuperVersions>, .*>::expect$", lambda ex2, env, b, a, p, d: _one(a[0].p0[0])),
            (r"^<std::sync::RwLockWriteGuard<'_, SuperVersions> as Deref(Mut)?>::deref(_mut)?$", lambda ex2, env, b, a, p, d: _one(hist)),
            (r"^SuperVersions::latest_version$", latest),
            (r"^<Arc<Memtable> as Deref>::deref$", lambda ex2, env, b, a, p, d: _one(rsv(env, a[0]))),
            (r"^Memtable::is_empty$", lambda ex2, env, b, a, p, d: _one(empty)),
            (r"^SequenceNumberCounter::next$", opq("FreshId")),
            (r"^Memtable::new$", opq("FreshMemtable")),
            (r"^Arc::<Memtable>::new$", lambda ex2, env, b, a, p, d: _one(a[0])),
            (r"^<Arc<Memtable> as Clone>::clone$", lambda ex2, env, b, a, p, d: _one(rsv(env, a[0]))),
            (r"^<Arc<SealedMemtables> as Deref>::deref$", lambda ex2, env, b, a, p, d: _one(rsv(env, a[0]))),
            (r"^SealedMemtables::add$", lambda ex2, env, b, a, p, d: _one(Obj("Added", prev=rsv(env, a[0]), what=rsv(env, a[1])))),
            (r"^Arc::<SealedMemtables>::new$", lambda ex2, env, b, a, p, d: _one(a[0])),
            (r"^SuperVersions::replace_latest_version$", m_replace),
            (r"^<log::Level as PartialOrd<LevelFilter>>::le$", lambda ex2, env, b, a, p, d: _one(B(False))),
        ]]
        res = []
        ex.run(fn, [Ref(tree)], symex.Path(), lambda ret, env, path: res.append((ret, path)))
        out = {"nodes": len(res), "steps_bound": 1, "assertions": 0, "violation_disjuncts": 0, "z3_s": 0.0, "queries": 0, "paths": len(res), "feasible_paths": len(res),
               "assumptions": sorted(ex.assumptions) + ["the version-history lock is not poisoned", "logging is disabled"], "solvers": "cvc5 1.0 --solve-bv-as-int=sum"}
        bad = []
        qs = []
        some_paths = 0
        for k, (ret, path) in enumerate(res):
            if isinstance(ret, Opt) and ret.cond.const() is False:
                qs.append(("none:%d" % k, path.pc + ["(not active_is_empty)"]))  # None only when the active memtable is empty
                continue
            if not (isinstance(ret, Opt) and ret.cond.const() is True and same(un(ret.val), Obj("OldActive"))):
                bad.append("rotate_memtable does not return the memtable it sealed")
                continue
            some_paths += 1
            qs.append(("some:%d" % k, path.pc + ["active_is_empty"]))
        if len(installed) != some_paths or some_paths == 0:
            bad.append("replace_latest_version is called %d times on %d rotating paths" % (len(installed), some_paths))
        for sv, pc in installed:
            f = sv.items if isinstance(sv, Tup) else None
            if f is None:
                bad.append("the installed super version is not built from latest_version()")
                continue
            if not (isinstance(f[0], Obj) and f[0].kind == "FreshMemtable"):
                bad.append("after a rotation the active memtable is not a fresh Memtable::new(..): writes keep going into the sealed memtable")
            sd = f[1]
            if not (isinstance(sd, Obj) and sd.kind == "Added" and same(sd.prev, Obj("OldSealed")) and same(sd.what, Obj("OldActive"))):
                bad.append("the sealed memtables after a rotation are not the old ones plus the previously active memtable (its data would be lost or duplicated)")
            if not same(f[2], Obj("OldVersion")):
                bad.append("a rotation changes the version")
            if not (isinstance(f[3], BV) and f[3].t == "old_seqno"):
                bad.append("a rotation changes the super version's seqno (held snapshots may resolve differently)")
        if qs and not bad:
            r1, dt, raw = symex.solve_batch(ex.decls, qs, "cvc5int", timeout)
            out.update(z3_s=round(dt, 2), queries=len(qs))
            if r1 is None:
                out.update(verdict="inconclusive", reason="solver: %s" % str(raw)[:200], z3="error")
                return out
            for t, v in r1.items():
                if v == "sat":
                    bad.append("rotate_memtable %s" % ("returns None although the active memtable is not empty" if t.startswith("none") else "rotates an empty memtable"))
        out["z3"] = out["cvc5"] = "sat" if bad else "unsat"
        if bad:
            out.update(verdict="refuted", reason=bad[0], path=["  " + x for x in bad[:4]])
        else:
            out.update(verdict="proved", reason="")
        return out

    x = XCheck("O1.6 Tree::rotate_memtable: fresh active memtable, sealed = old sealed + old active, version and seqno untouched, returns the sealed memtable (None iff empty)", fn, runner)
    x.requires = [("", "", "see title")]
    x.shapes = "n/a (loop-free)"
    return [x]

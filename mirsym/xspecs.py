"""Engine X obligations: bounded symbolic execution of MIR (symex.py) against a property-level oracle."""
import itertools
import os
import re

import mir
import symex
from mir import MirError
from symex import BV, B, Opt, Enum, Ref, Obj, Tup, Closure, band, bnot, bor, ite, bvconst


def _src_root():
    return os.path.join(os.environ.get("VERIF_SCRATCH", "/var/tmp/verif-scratch"), "mir", "lsm", "src")


def struct_fields(rel, name):
    txt = open(os.path.join(_src_root(), rel)).read()
    m = re.search(r"struct %s(?:<[^>]*>)?\s*\{(.*?)\n\}" % re.escape(name), txt, re.S)
    if not m:
        raise MirError("struct %s not found in %s" % (name, rel))
    out = []
    for line in m.group(1).splitlines():
        mm = re.match(r"^\s*(pub(\([^)]*\))?\s+)?([a-z_][a-z0-9_]*)\s*:", line)
        if mm and not line.strip().startswith("//"):
            out.append(mm.group(3))
    return out


class Rec(Obj):
    """struct-like object: fields by declaration index, names checked against the source"""

    def __init__(self, kind, rel, struct, values):
        Obj.__init__(self, kind)
        self.names = struct_fields(rel, struct)
        self.values = values  # name -> value

    def field(self, ex, i, ty):
        if i >= len(self.names):
            raise MirError("field .%d of %s out of range" % (i, self.kind))
        n = self.names[i]
        if n not in self.values:
            raise MirError("field %s.%s is not modelled" % (self.kind, n))
        return self.values[n]


class XCheck:
    """result carrier understood by mirdriver"""

    def __init__(self, name, fn, runner):
        self.name, self.fn, self.runner = name, fn, runner
        self.events, self.requires, self.glue = {}, [], []

    def check(self, timeout=600):
        return self.runner(timeout)


# ---------------------------------------------------------------------------------------------
# C19 O19.2: fifo::Strategy::choose
# ---------------------------------------------------------------------------------------------

def _one(x):
    return [(x, [])]


def fifo_models(ex, shape, nosort=False):
    """library models for fifo::Strategy::choose; shape = list of runs, each a list of table indices"""
    tables = {}

    def table(i):
        if i not in tables:
            meta = Rec("ParsedMeta", "table/meta.rs", "ParsedMeta", {"created_at": ex.sym("created_%d" % i, 128),
                                                                       "file_size": ex.sym("size_%d" % i, 64),
                                                                       "id": ex.sym("id_%d" % i, 64)})
            inner = Rec("TableInner", "table/inner.rs", "Inner", {"metadata": meta})
            tables[i] = Obj("Table", i=i, inner=inner, meta=meta,
                            blob_ok=ex.symb("blob_ok_%d" % i), blob=ex.sym("blob_%d" % i, 64))
        return tables[i]

    flat = [table(i) for run in shape for i in run]
    level = Obj("Level", runs=[[table(i) for i in run] for run in shape])
    blobs = Obj("BlobFileList")
    vinner = Rec("VersionInner", "version/mod.rs", "VersionInner", {"blob_files": blobs})
    version = Obj("Version", inner=vinner, l0=level)
    l0_size = bvconst(0, 64)
    for t in flat:
        l0_size = BV(64, "(bvadd %s %s)" % (l0_size.t, t.meta.values["file_size"].t))
    blob_size = ex.sym("blob_on_disk", 64)
    now = ex.sym("now_ns", 128)

    def kind(v, k):
        if isinstance(v, Ref):
            v = v.target
        if not (isinstance(v, Obj) and v.kind == k):
            raise MirError("model expected %s, got %r" % (k, v))
        return v

    def local_obj(env, v, k):
        if isinstance(v, Ref) and isinstance(v.target, tuple):
            v = env[v.target[1]]
        return kind(v, k)

    def m_l0(ex, env, b, a, p, d):
        return _one(local_obj(env, a[0], "Version").l0)

    def m_ident(ex, env, b, a, p, d):
        v = a[0]
        return _one(v.target if isinstance(v, Ref) and not isinstance(v.target, tuple) else v)

    def m_version_deref(ex, env, b, a, p, d):
        return _one(local_obj(env, a[0], "Version").inner)

    def m_table_deref(ex, env, b, a, p, d):
        return _one(local_obj(env, a[0], "Table").inner)

    def m_is_empty_level(ex, env, b, a, p, d):
        return _one(B(len(flat) == 0))

    def m_true(ex, env, b, a, p, d):
        ex.assumptions.add("precondition: %s holds (its failure panics by design)" % b.callee.split("::")[-1])
        return _one(B(True))

    def m_false(ex, env, b, a, p, d):
        ex.assumptions.add("precondition: %s is false (its failure panics by design)" % b.callee.split("::")[-1])
        return _one(B(False))

    def m_opaque(ex, env, b, a, p, d):
        return _one(Obj("Opaque"))

    def m_panic(ex, env, b, a, p, d):
        return None

    def m_level_size(ex, env, b, a, p, d):
        ex.assumptions.add("stub: version::Level::size = wrapping sum of Table::file_size over the level's tables")
        return _one(l0_size)

    def m_blob_size(ex, env, b, a, p, d):
        ex.assumptions.add("stub: BlobFileList::on_disk_size = arbitrary u64")
        return _one(blob_size)

    def m_set_new(ex, env, b, a, p, d):
        return _one(Obj("Set", items=[]))

    def m_set_insert(ex, env, b, a, p, d):
        s = local_obj(env, a[0], "Set")
        s.items.append(a[1])
        return _one(B(True))

    def m_set_is_empty(ex, env, b, a, p, d):
        return _one(B(len(local_obj(env, a[0], "Set").items) == 0))

    def m_now(ex, env, b, a, p, d):
        ex.assumptions.add("stub: unix_timestamp() = arbitrary instant (nanoseconds as u128)")
        return _one(Obj("Duration", nanos=now))

    def m_as_nanos(ex, env, b, a, p, d):
        return _one(local_obj(env, a[0], "Duration").nanos)

    def m_zext128(ex, env, b, a, p, d):
        return _one(ex.int_cast(a[0], 128, False))

    def m_sat_sub(ex, env, b, a, p, d):
        x, y = a
        return _one(BV(x.w, "(ite (bvuge %s %s) (bvsub %s %s) (_ bv0 %d))" % (x.t, y.t, x.t, y.t, x.w)))

    def m_vec_new(ex, env, b, a, p, d):
        return _one(Obj("Vec", items=[]))

    def m_vec_push(ex, env, b, a, p, d):
        local_obj(env, a[0], "Vec").items.append(a[1])
        return _one(Tup([]))

    def m_deref_mut_vec(ex, env, b, a, p, d):
        return _one(local_obj(env, a[0], "Vec"))

    def m_level_iter(ex, env, b, a, p, d):
        return _one(Obj("RunIter", runs=local_obj(env, a[0], "Level").runs))

    def m_flat_map(ex, env, b, a, p, d):
        # the closure must be `|run| run.iter()`: deref, deref, <[Table]>::iter
        cf = ex.by_span.get(a[1].span)
        if cf is None:
            raise MirError("flat_map closure not found")
        callees = [bb.callee for bb in cf.blocks.values() if not bb.cleanup and bb.kind == "call"]
        if not (len(callees) == 3 and "Arc<Run<Table>> as Deref>::deref" in callees[0] and "Run<Table> as Deref>::deref" in callees[1]
                and re.search(r"\[Table\]>::iter$", callees[2])):
            raise MirError("flat_map closure is not `|run| run.iter()`: %s" % callees)
        runs = local_obj(env, a[0], "RunIter").runs
        return _one(Obj("Iter", items=[t for r in runs for t in r], pos=0))

    def m_into_iter(ex, env, b, a, p, d):
        v = a[0]
        if isinstance(v, Obj) and v.kind == "Iter":
            return _one(v)
        if isinstance(v, Obj) and v.kind == "Vec":
            return _one(Obj("Iter", items=list(v.items), pos=0))
        raise MirError("into_iter of %r" % (v,))

    def m_next(ex, env, b, a, p, d):
        it = local_obj(env, a[0], "Iter")
        if it.pos < len(it.items):
            it.pos += 1
            return _one(Opt(B(True), it.items[it.pos - 1]))
        return _one(Opt(B(False), None))

    def m_is_some_and(ex, env, b, a, p, d):
        o, clo = a
        if o.cond.const() is False:
            return _one(B(False))
        outs = ex.call_closure(clo, [o.val], p, d)
        if len(outs) != 1:
            raise MirError("is_some_and closure forks")
        ret, conds = outs[0]
        if conds:
            raise MirError("is_some_and closure has side conditions")
        return _one(band(o.cond, ret))

    def m_table_id(ex, env, b, a, p, d):
        return _one(local_obj(env, a[0], "Table").meta.values["id"])

    def m_file_size(ex, env, b, a, p, d):
        ex.assumptions.add("stub: Table::file_size = metadata.file_size")
        return _one(local_obj(env, a[0], "Table").meta.values["file_size"])

    def m_blob_bytes(ex, env, b, a, p, d):
        ex.assumptions.add("stub: Table::referenced_blob_bytes = arbitrary Result<u64> per table")
        t = local_obj(env, a[0], "Table")
        return _one(Opt(t.blob_ok, t.blob))

    def m_unwrap_or_default(ex, env, b, a, p, d):
        o = a[0]
        return _one(ite(o.cond, o.val, bvconst(0, o.val.w)))

    def m_sort_by_key(ex, env, b, a, p, d):
        v = local_obj(env, a[0], "Vec")
        loc = re.search(r"_\d+", mir.split_top(b.args)[0]).group(0)
        clo = a[1]
        keys = []
        for t in v.items:
            outs = ex.call_closure(clo, [Ref(Ref(t))], p, d)
            if len(outs) != 1 or outs[0][1]:
                raise MirError("sort key closure forks")
            keys.append(outs[0][0])
        n = len(v.items)
        if nosort:
            return _one(Tup([]))
        if n <= 1:
            return _one(Tup([]))
        ex.assumptions.add("stub: slice::sort_by_key = the stable sort by the closure's key (one successor per permutation, constrained to be the sorted one)")
        outs = []
        for perm in itertools.permutations(range(n)):
            conds = []
            for x in range(n - 1):
                i, j = perm[x], perm[x + 1]
                if i < j:
                    conds.append("(bvule %s %s)" % (keys[i].t, keys[j].t))
                else:
                    conds.append("(bvult %s %s)" % (keys[i].t, keys[j].t))

            def patch(ex2, env2, perm=perm, loc=loc):
                v2 = local_obj(env2, env2[loc], "Vec")
                v2.items = [v2.items[k] for k in perm]
            outs.append((Tup([]), conds, patch))
        return outs

    def copy_ref(r):
        return r

    models = [
        (r"^Version::l0$", m_l0),
        (r"^<version::Level as Deref>::deref$", m_ident),
        (r"^GenericLevel::<Table>::is_empty$", m_is_empty_level),
        (r"^GenericLevel::<Table>::is_disjoint$", m_true),
        (r"^CompactionState::hidden_set$", m_opaque),
        (r"^Version::level_is_busy$", m_false),
        (r"^Arguments::<'_>::from_str$", m_opaque),
        (r"^panic_fmt$", m_panic),
        (r"^version::Level::size$", m_level_size),
        (r"^<Version as Deref>::deref$", m_version_deref),
        (r"^<Arc<BlobFileList> as Deref>::deref$", m_ident),
        (r"^BlobFileList::on_disk_size$", m_blob_size),
        (r"^<std::collections::HashSet<u64, [^>]*> as Default>::default$", m_set_new),
        (r"^std::collections::HashSet::<u64, [^>]*>::insert$", m_set_insert),
        (r"^std::collections::HashSet::<u64, [^>]*>::is_empty$", m_set_is_empty),
        (r"^unix_timestamp$", m_now),
        (r"^Duration::as_nanos$", m_as_nanos),
        (r"^<u128 as From<u64>>::from$", m_zext128),
        (r"^<u128 as From<Timestamp>>::from$", m_ident),
        (r"^core::num::<impl u(64|128)>::saturating_sub$", m_sat_sub),
        (r"^Vec::<&Table>::new$", m_vec_new),
        (r"^Vec::<&Table>::push$", m_vec_push),
        (r"^<Vec<&Table> as DerefMut>::deref_mut$", m_deref_mut_vec),
        (r"^GenericLevel::<Table>::iter$", m_level_iter),
        (r"as Iterator>::flat_map::<std::slice::Iter<'_, Table>", m_flat_map),
        (r"as IntoIterator>::into_iter$", m_into_iter),
        (r"^<FlatMap<.*Table.*> as Iterator>::next$", m_next),
        (r"^<std::vec::IntoIter<&Table> as Iterator>::next$", m_next),
        (r"^Option::<u128>::is_some_and::<", m_is_some_and),
        (r"^Table::id$", m_table_id),
        (r"^Table::file_size$", m_file_size),
        (r"^Table::referenced_blob_bytes$", m_blob_bytes),
        (r"^std::result::Result::<u64, error::Error>::unwrap_or_default$", m_unwrap_or_default),
        (r"^<Table as Deref>::deref$", m_table_deref),
        (r"^std::slice::<impl \[&Table\]>::sort_by_key::<Timestamp,", m_sort_by_key),
    ]
    selfobj = Rec("Strategy", "compaction/fifo.rs", "Strategy",
                  {"limit": ex.sym("limit", 64), "ttl_seconds": Opt(ex.symb("ttl_some"), ex.sym("ttl_s", 64))})
    ctx = dict(tables=tables, flat=flat, now=now, blob_size=blob_size, l0_size=l0_size, selfobj=selfobj)
    return models, [Ref(selfobj), Ref(version), Ref(Obj("Config")), Ref(Obj("CompactionState"))], ctx


def _fifo_run(fns, fn, shape, nosort, timeout):
    closures = [f for f in fns if f.closure_span() and "src/compaction/fifo.rs" in f.closure_span()]
    ex = symex.Executor([fn] + closures, [])
    ex.abstract_mul = True
    models, args, ctx = fifo_models(ex, shape, nosort)
    ex.models = [(re.compile(r), h) for r, h in models]
    results = []

    def done(ret, env, path):
        results.append((ret, env, path))
    ex.run(fn, args, symex.Path(), done)
    flat = ctx["flat"]
    n = len(flat)
    W = 140

    def z(t, w):
        return "((_ zero_extend %d) %s)" % (W - w, t)
    ttl_some, ttl_s = ctx["selfobj"].values["ttl_seconds"].cond.t, ctx["selfobj"].values["ttl_seconds"].val.t
    limit = ctx["selfobj"].values["limit"].t
    created = [t.meta.values["created_at"].t for t in flat]
    # oracle, written independently of the code: a table exceeded the TTL iff created + ttl * 10^9 ns <= now (no wrap: 140 bit)
    t_real = "(bvmul %s (_ bv1000000000 %d))" % (z(ttl_s, 64), W)
    lemma, glob = None, []
    if len(ex.mul_defs) == 1:
        # the code multiplies once by a constant: prove separately that this product is ttl_s * 10^9 (no overflow),
        # then let code and oracle share one variable for it (the property is proved for every value < 2^94 of it)
        d = list(ex.mul_defs.values())[0]
        real = "(bvmul %s (_ bv%d %d))" % (d["a"], d["c"], d["w"])
        ovf = "(bvugt %s (_ bv%d %d))" % (d["a"], ((1 << d["w"]) - 1) // d["c"], d["w"]) if d["c"] else "false"
        lemma = "(or %s (not (= %s %s)))" % (ovf, z(real, d["w"]), t_real)
        ex.decls["ttl_ns"] = "(_ BitVec %d)" % W
        glob = ["(= %s ttl_ns)" % z(d["var"], d["w"]), "(not %s)" % d["ovf"], "(bvult ttl_ns (bvshl (_ bv1 %d) (_ bv94 %d)))" % (W, W)]
        t_or = "ttl_ns"
    else:
        t_or = t_real
    expired = ["(and %s (bvugt %s (_ bv0 64)) (bvule (bvadd %s %s) %s))" % (
        ttl_some, ttl_s, z(c, 128), t_or, z(ctx["now"].t, 128)) for c in created]
    total = "(bvadd %s %s)" % (z(ctx["l0_size"].t, 64), z(ctx["blob_size"].t, 64))
    within = "(bvule %s %s)" % (total, z(limit, 64))
    base = ["(bvuge %s (_ bv1 128))" % c for c in created]  # a table was created after the epoch
    ex.assumptions.add("every table's created_at is >= 1 ns after the epoch")
    queries, info = [], {}
    cover = {"DoNothing": 0, "Drop(ttl only)": 0, "Drop(size)": 0}
    for k, (ret, env, path) in enumerate(results):
        pc = base + path.pc
        if not isinstance(ret, Enum):
            raise MirError("choose returned %r" % (ret,))
        if ret.variant == "DoNothing":
            dropped = []
        elif ret.variant == "Drop":
            st = ret.payload[0]
            if not (isinstance(st, Obj) and st.kind == "Set"):
                raise MirError("Choice::Drop payload is %r" % (st,))
            dropped = []
            for it in st.items:
                m = re.fullmatch(r"id_(\d+)", it.t)
                if not m:
                    raise MirError("dropped id is not a table id: %s" % it.t)
                dropped.append([i for i, t in enumerate(flat) if t.i == int(m.group(1))][0])
        else:
            raise MirError("choose returned Choice::%s" % ret.variant)
        dset = sorted(set(dropped))
        queries.append(("feasible:%d" % k, pc))
        info[k] = (ret.variant, dset, path)
        # the set a DoNothing path accumulated must be empty (else the result does not reflect the drops)
        if ret.variant == "Drop" and not dset:
            queries.append(("R3:%d" % k, pc))
        if dset:
            keep = [j for j in range(n) if j not in dset]
            bad = ["(and (not %s) (bvugt %s %s))" % (expired[i], created[i], created[j]) for i in dset for j in keep]
            if bad:
                queries.append(("R1:%d" % k, pc + ["(or %s)" % " ".join(bad) if len(bad) > 1 else bad[0]]))
            queries.append(("R2:%d" % k, pc + [within] + ["(not %s)" % e for e in expired]))
    return ex, queries, info, dict(expired=expired, created=created, n=n, lemma=lemma, glob=glob)


def fifo_choose(fns):
    fn = mir.find(fns, r"src/compaction/fifo\.rs[^>]*>::choose\(")
    tier = os.environ.get("VERIF_TIER", "quick")
    shapes = [[], [[0]], [[0], [1]], [[0], [1], [2]], [[0, 1], [2]]]
    if tier == "thorough":
        shapes += [[[0], [1], [2], [3]], [[0], [1, 2], [3]]]

    def runner(timeout, nosort=False):
        t0 = __import__("time").time()
        allq, meta = [], {}
        lemma, glob = None, []
        decls, assumptions, paths = {}, set(), 0
        for si, shape in enumerate(shapes):
            ex, queries, info, ctx = _fifo_run(fns, fn, shape, nosort, timeout)
            decls.update(ex.decls)
            assumptions |= ex.assumptions
            paths += len(info)
            for tag, asserts in queries:
                allq.append(("%d/%s" % (si, tag), asserts))
            meta[si] = (shape, info, ctx)
            if ctx["lemma"]:
                lemma, glob = ctx["lemma"], ctx["glob"]
        lem_res = None
        if lemma:
            # lemma: the product computed by the code (MIR operands) is ttl_s * 10^9 without overflow, for every ttl_s
            la, _, _ = symex.solve_batch(decls, [("lemma", [lemma])], "cvc5", 300)
            lb, _, _ = symex.solve_batch(decls, [("lemma", [lemma])], "z3", 30)
            va, vb = (la or {}).get("lemma"), (lb or {}).get("lemma")
            got = {v for v in (va, vb) if v in ("sat", "unsat")}
            lem_res = got.pop() if len(got) == 1 else None
            x.glue = [("TTL cutoff: the constant multiplication in choose equals ttl_seconds * 10^9 ns without overflow (cvc5: %s, z3: %s)" % (va, vb),
                       {"unsat": "proved", "sat": "refuted"}.get(lem_res, "inconclusive"), 0.0)]
        res, dt, raw = symex.solve_parallel(decls, allq, "z3", timeout, 8, glob)
        out = {"nodes": paths, "steps_bound": max(sum(len(r) for r in s) for s in shapes),
               "assertions": sum(len(a) for _, a in allq), "violation_disjuncts": len(allq), "z3_s": round(dt, 2),
               "queries": len(allq), "paths": paths, "assumptions": sorted(assumptions)}
        if res is None:
            out.update(verdict="inconclusive", reason="z3: %s" % raw, z3="error")
            return out
        res2, dt2, raw2 = symex.solve_parallel(decls, allq, "cvc5", timeout, 8, glob)
        out["cvc5_s"] = round(dt2, 2)
        if res2 is None:
            out.update(verdict="inconclusive", reason="cvc5: %s" % str(raw2)[:300], z3="ok", cvc5="error")
            return out
        diff = [t for t in res if res[t] != res2[t] and "unknown" not in (res[t], res2[t])]
        if diff:
            out.update(verdict="inconclusive", reason="z3 and cvc5 disagree on %s" % diff[:3], z3="ok", cvc5="ok")
            return out
        if any(v == "unknown" for v in res.values()):
            out.update(verdict="inconclusive", reason="solver answered unknown", z3="unknown")
            return out
        feas = [t for t, v in res.items() if "/feasible:" in t and v == "sat"]
        viol = [t for t, v in res.items() if "/feasible:" not in t and v == "sat"]
        out["feasible_paths"] = len(feas)
        kinds = set()
        for t in feas:
            si, k = int(t.split("/")[0]), int(t.split(":")[1])
            variant, dset, path = meta[si][1][k]
            kinds.add("%s|%d" % (variant, len(dset)))
        out["covered_outcomes"] = sorted(kinds)
        out["z3"] = "sat" if viol else "unsat"
        out["cvc5"] = out["z3"]
        need = {"DoNothing|0", "Drop|1", "Drop|2"}
        if not need <= kinds:
            out.update(verdict="inconclusive", reason="vacuity: outcomes %s never feasible" % sorted(need - kinds))
            return out
        if lemma and lem_res != "unsat":
            if lem_res == "sat":
                out.update(verdict="refuted", reason="the TTL cutoff is not now - ttl_seconds * 10^9 ns (unit / operand of the multiplication)",
                           path=["  lemma refuted: %s" % lemma])
            else:
                out.update(verdict="inconclusive", reason="multiplication lemma undecided")
            return out
        if not viol:
            out.update(verdict="proved", reason="")
            return out
        t = viol[0]
        si, rest = t.split("/")
        si = int(si)
        req, k = rest.split(":")
        k = int(k)
        shape, info, ctx = meta[si]
        variant, dset, path = info[k]
        asserts = dict(allq)[t]
        want = sorted(n for n in decls if re.match(r"(created|size|blob|id)_\d+$|limit$|ttl_s$|ttl_some$|now_ns$|blob_on_disk$|blob_ok_\d+$", n))
        model = symex.model_of(decls, list(glob) + asserts, want)
        msgs = {"R1": "a dropped table that has not exceeded the TTL is newer (created_at) than a retained table",
                "R2": "tables are dropped although the tree is within its size limit and no table exceeded the TTL",
                "R3": "Choice::Drop with an empty set / result does not reflect the accumulated drops"}
        lines = ["  L0 shape (runs of table indices): %s" % shape, "  result: Choice::%s, dropped table indices %s" % (variant, dset),
                 "  violated: %s (%s)" % (req, msgs[req]), "  input (solver model):"]
        for nme in want:
            if nme in model:
                lines.append("    %-14s = %s" % (nme, model[nme]))
        lines.append("  MIR path: " + " ".join("bb%d" % bbi for f, bbi in path.trace if f == fn.name))
        out.update(verdict="refuted", reason=msgs[req], path=lines)
        return out

    x = XCheck("O19.2 fifo::Strategy::choose: drops oldest-first unless expired, nothing within limit and TTL (symbolic execution, L0 of <= %d tables)" % max(
        sum(len(r) for r in s) for s in shapes), fn, runner)
    x.requires = [("R1", "", "no dropped, non-expired table is newer than a retained table"),
                  ("R2", "", "nothing is dropped while total size <= limit and no table exceeded the TTL"),
                  ("R3", "", "Choice::Drop carries exactly the accumulated ids; DoNothing iff none")]
    x.shapes = shapes
    x.canary = lambda timeout: runner(timeout, nosort=True)
    return [x]

//! verif-replay: runs small workloads against the *real* lsm-tree (path dependency on /repo, real
//! dependencies, no verification models) and dumps / re-opens directories. Used by
//!   * lib/crashsim.py  - strace-driven crash images (C05 replay, engine-M translator validation)
//!   * C16 / C10 native demonstrations
//!
//! usage:
//!   verif-replay workload <dir> <name>      run a workload; `mark(n)` = failed open of /VERIF_MARK_<n>
//!   verif-replay dump <dir> [blob]          open the tree and print every key/value + seqno marks
use lsm_tree::{AbstractTree, Config, Guard, KvSeparationOptions, SeqNo, SequenceNumberCounter};
use std::sync::Arc;

fn mark(n: u32) {
    // visible in strace as openat(..."/VERIF_MARK_n"...) = -1 ENOENT
    let _ = std::fs::File::open(format!("/VERIF_MARK_{n}"));
}

fn open(dir: &str, blob: bool) -> lsm_tree::Result<lsm_tree::AnyTree> {
    let seqno = SequenceNumberCounter::default();
    let vis = SequenceNumberCounter::default();
    let mut cfg = Config::new(dir, seqno, vis);
    if blob {
        cfg = cfg.with_kv_separation(Some(KvSeparationOptions::default().separation_threshold(16)));
    }
    cfg.open()
}

fn dump(dir: &str, blob: bool) -> i32 {
    let tree = match open(dir, blob) {
        Ok(t) => t,
        Err(e) => {
            println!("OPEN_ERROR {e:?}");
            return 3;
        }
    };
    let mut n = 0;
    for g in tree.iter(SeqNo::MAX, None) {
        match g.into_inner() {
            Ok((k, v)) => {
                println!("KV {} {}", hex(&k), hex(&v));
                n += 1;
            }
            Err(e) => {
                println!("READ_ERROR {e:?}");
                return 4;
            }
        }
    }
    for key in ["a", "b", "c"] {
        for s in [4u64, 6, 8, SeqNo::MAX] {
            match tree.get(key, s) {
                Ok(v) => println!("GET {key}@{s} {}", v.map(|v| hex(&v)).unwrap_or_else(|| "-".into())),
                Err(e) => {
                    println!("READ_ERROR {e:?}");
                    return 4;
                }
            }
        }
    }
    println!("COUNT {n}");
    println!("PERSISTED_SEQNO {:?}", tree.get_highest_persisted_seqno());
    println!("TABLES {}", tree.table_count());
    0
}

fn hex(b: &[u8]) -> String {
    if b.len() > 24 {
        format!("{}..len{}", b[..8].iter().map(|x| format!("{x:02x}")).collect::<String>(), b.len())
    } else {
        b.iter().map(|x| format!("{x:02x}")).collect()
    }
}

fn workload(dir: &str, name: &str) -> lsm_tree::Result<()> {
    let big = b"0123456789abcdef0123456789abcdef".repeat(4);
    match name {
        // a standard tree: create, two flushes, major compaction
        "std" => {
            let tree = open(dir, false)?;
            mark(1);
            tree.insert("a", "a0", 1);
            tree.insert("b", "b0", 2);
            tree.flush_active_memtable(0)?;
            mark(2);
            tree.insert("a", "a1", 3);
            tree.remove("b", 4);
            tree.flush_active_memtable(0)?;
            mark(3);
            tree.major_compact(u64::MAX, 0)?;
            mark(4);
        }
        // key-value separated tree: create, flush with one blob, overwrite + flush
        "blob" => {
            let tree = open(dir, true)?;
            mark(1);
            tree.insert("a", &big, 1);
            tree.insert("b", "small", 2);
            tree.flush_active_memtable(0)?;
            mark(2);
            tree.insert("c", &big, 3);
            tree.flush_active_memtable(0)?;
            mark(3);
        }
        // two tables holding versions of the same key + a deleted key: the base for corruption replay
        "std2" => {
            let tree = open(dir, false)?;
            tree.insert("a", "old", 3);
            tree.insert("b", "b0", 4);
            tree.flush_active_memtable(0)?;
            tree.insert("a", "new", 5);
            tree.remove("b", 6);
            tree.insert("c", "c0", 7);
            tree.flush_active_memtable(0)?;
        }
        "blob2" => {
            let tree = open(dir, true)?;
            tree.insert("a", &big, 3);
            tree.insert("b", "b0", 4);
            tree.flush_active_memtable(0)?;
            let big2 = b"fedcba9876543210fedcba9876543210".repeat(4);
            tree.insert("a", &big2, 5);
            tree.insert("c", &big, 7);
            tree.flush_active_memtable(0)?;
        }
        // write-once key, two weak-delete generations; the middle generation is flushed together with a
        // GC watermark above it (C13): the oldest value must stay hidden
        "weak-generations" => {
            let tree = open(dir, false)?;
            tree.insert("a", "v0", 0);
            tree.flush_active_memtable(0)?;
            tree.remove_weak("a", 1);
            tree.insert("a", "v2", 2);
            tree.remove_weak("a", 3);
            tree.flush_active_memtable(4)?;
            let got = tree.get("a", SeqNo::MAX)?;
            println!("GET a {:?}", got.as_ref().map(|v| hex(v)));
            if got.is_some() {
                println!("DEMONSTRATED: a weakly deleted write-once key came back");
                std::process::exit(7);
            }
        }
        // write-once key, two weak-delete generations; the older weak tombstone is shadowed by the re-inserted
        // value when the memtable is flushed with a watermark between them, then the newer pair cancels (C13)
        "weak-shadowed" => {
            let tree = open(dir, false)?;
            tree.insert("a", "v0", 0);
            tree.flush_active_memtable(0)?;
            tree.major_compact(u64::MAX, 0)?;
            tree.remove_weak("a", 1);
            tree.insert("a", "v2", 2);
            tree.remove_weak("a", 3);
            tree.flush_active_memtable(2)?;
            let mid = tree.get("a", SeqNo::MAX)?;
            println!("GET a after flush {:?}", mid.as_ref().map(|v| hex(v)));
            tree.compact(Arc::new(lsm_tree::compaction::PullDown(0, 1)), 10)?;
            let got = tree.get("a", SeqNo::MAX)?;
            println!("GET a after compaction {:?}", got.as_ref().map(|v| hex(v)));
            if mid.is_some() || got.is_some() {
                println!("DEMONSTRATED: a weakly deleted write-once key came back");
                std::process::exit(7);
            }
        }
        // FIFO drops every table of a key-value separated tree, reopen (blob file ids restart), new data, FIFO
        // drops the oldest table only: the retained tables' values must stay readable (C19 / C20 / C09)
        "fifo-blob-id-reuse" => {
            let big = vec![b'x'; 64];
            {
                let tree = open(dir, true)?;
                for i in 0..2u8 {
                    tree.insert([b'a', i].as_slice(), &big, u64::from(i));
                    tree.flush_active_memtable(0)?;
                }
                tree.compact(Arc::new(lsm_tree::compaction::Fifo::new(1, None)), 0)?;
                println!("AFTER_DROP_ALL tables={} blob_files={}", tree.table_count(), tree.blob_file_count());
            }
            let tree = open(dir, true)?;
            for i in 0..3u8 {
                tree.insert([b'b', i].as_slice(), &big, 10 + u64::from(i));
                tree.flush_active_memtable(0)?;
            }
            let size = tree.disk_space();
            tree.compact(Arc::new(lsm_tree::compaction::Fifo::new(size - 1, None)), 0)?;
            println!("AFTER_DROP_OLDEST tables={} blob_files={}", tree.table_count(), tree.blob_file_count());
            let mut lost = 0;
            for i in 1..3u8 {
                let r = std::panic::catch_unwind(std::panic::AssertUnwindSafe(|| tree.get([b'b', i].as_slice(), SeqNo::MAX)));
                match r {
                    Ok(Ok(Some(v))) if v.len() == 64 => println!("GET b{i} ok"),
                    other => {
                        println!("GET b{i} LOST: {:?}", other.map(|x| x.map(|y| y.map(|z| z.len()))));
                        lost += 1;
                    }
                }
            }
            if lost > 0 || tree.blob_file_count() < tree.table_count() {
                println!("DEMONSTRATED: a retained table's blob file was dropped by a FIFO compaction");
                std::process::exit(7);
            }
        }
        // PROBE (does not demonstrate anything so far): two bulk ingestions of the same key into a key-value separated tree, both versions kept (watermark 0),
        // both blob files fragmented (a sibling table dropped by drop_range), then rewritten together (C08)
        "ingest-relocate" => {
            let seqno = SequenceNumberCounter::default();
            let vis = SequenceNumberCounter::default();
            let tree = Config::new(dir, seqno, vis)
                .with_kv_separation(Some(
                    KvSeparationOptions::default().separation_threshold(16).age_cutoff(1.0).staleness_threshold(0.1),
                ))
                .open()?;
            let big = |c: u8| vec![c; 200];
            for round in 0..2u8 {
                let mut ing = tree.ingestion()?;
                ing.write("k", big(b'a' + round))?;
                ing.write(if round == 0 { "y1" } else { "y2" }, big(b'y'))?;
                ing.finish()?;
                // one table per key, every version kept
                tree.major_compact(1, 0)?;
                println!("ROUND {round} tables={} blob_files={}", tree.table_count(), tree.blob_file_count());
            }
            tree.drop_range("y1"..="y2")?;
            println!("AFTER_DROP_RANGE tables={} blob_files={} stale={}", tree.table_count(), tree.blob_file_count(), tree.stale_blob_bytes());
            let r = std::panic::catch_unwind(std::panic::AssertUnwindSafe(|| tree.major_compact(64_000_000, 0)));
            match r {
                Ok(Ok(())) => println!("COMPACT ok tables={} blob_files={}", tree.table_count(), tree.blob_file_count()),
                Ok(Err(e)) => println!("COMPACT err {e:?}"),
                Err(_) => {
                    println!("DEMONSTRATED: relocating compaction panicked on a tree built by two bulk ingestions");
                    std::process::exit(7);
                }
            }
            let got = tree.get("k", SeqNo::MAX)?;
            println!("GET k {:?}", got.map(|v| v.len()));
        }
        // the same history on a standard and on a key-value separated tree: overwrite, weak delete, compaction (C08)
        "weak-indirection" => {
            let big = |c: u8| vec![c; 64];
            let mut answers = vec![];
            for blob in [false, true] {
                let d = format!("{dir}/{}", if blob { "blob" } else { "std" });
                std::fs::create_dir_all(&d)?;
                let tree = open(&d, blob)?;
                tree.insert("a", big(b'o'), 0);
                tree.flush_active_memtable(0)?;
                tree.insert("a", big(b'n'), 1);
                tree.remove_weak("a", 2);
                tree.flush_active_memtable(0)?;
                tree.major_compact(u64::MAX, 1_000)?;
                let got = tree.get("a", SeqNo::MAX)?.map(|v| v[0]);
                println!("{} tree: get(a) = {:?}", if blob { "blob" } else { "standard" }, got.map(|c| c as char));
                answers.push(got);
            }
            if answers[0] != answers[1] {
                println!("DEMONSTRATED: a key-value separated tree answers differently from a standard tree fed the same history");
                std::process::exit(7);
            }
        }
        // separation threshold 0 and empty values: a blob file whose blobs are all empty has 0 value bytes (C08 / C09)
        "empty-values" => {
            let seqno = SequenceNumberCounter::default();
            let vis = SequenceNumberCounter::default();
            let tree = Config::new(dir, seqno, vis)
                .with_kv_separation(Some(KvSeparationOptions::default().separation_threshold(0)))
                .open()?;
            tree.insert("a", "", 0);
            tree.insert("b", "", 1);
            tree.flush_active_memtable(0)?;
            tree.remove("a", 2);
            tree.flush_active_memtable(0)?;
            tree.major_compact(u64::MAX, 1_000)?;
            println!("AFTER_COMPACT tables={} blob_files={}", tree.table_count(), tree.blob_file_count());
            tree.insert("c", "", 3);
            tree.flush_active_memtable(0)?;
            tree.major_compact(u64::MAX, 1_000)?;
            println!("AFTER_COMPACT2 tables={} blob_files={}", tree.table_count(), tree.blob_file_count());
            let r = std::panic::catch_unwind(std::panic::AssertUnwindSafe(|| tree.get("b", SeqNo::MAX)));
            match r {
                Ok(Ok(Some(v))) if v.is_empty() => println!("GET b ok (empty value)"),
                other => {
                    println!("GET b LOST: {:?}", other.map(|x| x.map(|y| y.map(|z| z.len()))));
                    println!("DEMONSTRATED: a live empty value lost its blob file");
                    std::process::exit(7);
                }
            }
        }
        // two drop_ranges that hit tables pointing into the same blob file: the garbage of both must be reported (C09)
        "drop-range-stale-bytes" => {
            let seqno = SequenceNumberCounter::default();
            let vis = SequenceNumberCounter::default();
            let tree = Config::new(dir, seqno, vis)
                .with_kv_separation(Some(KvSeparationOptions::default().separation_threshold(16)))
                .open()?;
            for i in 0..3000u32 {
                tree.insert(format!("k{i:05}"), vec![b'x'; 100], u64::from(i));
            }
            tree.flush_active_memtable(0)?;
            tree.major_compact(1_024, 0)?;
            println!("TABLES {} BLOB_FILES {}", tree.table_count(), tree.blob_file_count());
            let on_disk_of = |lo: &str, hi: &str| -> u64 {
                let mut sum = 0;
                for t in tree.current_version().iter_tables() {
                    let kr = &t.metadata.key_range;
                    if &**kr.min() >= lo.as_bytes() && &**kr.max() <= hi.as_bytes() {
                        for l in t.list_blob_file_references().unwrap().unwrap_or_default() {
                            sum += l.on_disk_bytes;
                        }
                    }
                }
                sum
            };
            let e1 = on_disk_of("k00000", "k00999");
            tree.drop_range("k00000"..="k00999")?;
            let s1 = tree.stale_blob_bytes();
            let e2 = on_disk_of("k01000", "k01999");
            tree.drop_range("k01000"..="k01999")?;
            let s2 = tree.stale_blob_bytes();
            println!("after 1st drop: expected {e1} reported {s1}; after 2nd drop: expected {} reported {s2} (tables {} blob files {})", e1 + e2, tree.table_count(), tree.blob_file_count());
            if e1 > 0 && e2 > 0 && tree.blob_file_count() > 0 && (s1 != e1 || s2 != e1 + e2) {
                println!("DEMONSTRATED: stale_blob_bytes does not report the garbage of both drops");
                std::process::exit(7);
            }
        }
        // FIFO drop whose version GC fails (old version file replaced by a directory => unlink fails)
        "fifo-gc-fail" => {
            let tree = open(dir, false)?;
            tree.insert("a", "a0", 1);
            tree.flush_active_memtable(0)?;
            tree.insert("b", "b0", 2);
            tree.flush_active_memtable(0)?;
            let before_a = tree.get("a", SeqNo::MAX)?.is_some();
            // make `remove_file(v0)` fail with EISDIR, standing in for EIO on unlink
            let v0 = std::path::Path::new(dir).join("v0");
            std::fs::remove_file(&v0)?;
            std::fs::create_dir(&v0)?;
            let fifo = Arc::new(lsm_tree::compaction::Fifo::new(1, None));
            let res = tree.compact(fifo, 1_000);
            let after_a = tree.get("a", SeqNo::MAX)?.is_some();
            let after_b = tree.get("b", SeqNo::MAX)?.is_some();
            println!("COMPACT_RESULT {}", if res.is_ok() { "Ok".to_string() } else { format!("Err({:?})", res.as_ref().err().unwrap()) });
            println!("A_BEFORE {before_a} A_AFTER {after_a} B_AFTER {after_b} TABLES {}", tree.table_count());
            if res.is_err() && (before_a != after_a) {
                println!("DEMONSTRATED: compaction returned Err but reads changed");
                std::process::exit(7);
            }
        }
        _ => panic!("unknown workload {name}"),
    }
    Ok(())
}

fn main() {
    let args: Vec<String> = std::env::args().collect();
    let rc = match args.get(1).map(String::as_str) {
        Some("workload") => match workload(&args[2], &args[3]) {
            Ok(()) => 0,
            Err(e) => {
                println!("WORKLOAD_ERROR {e:?}");
                5
            }
        },
        Some("dump") => dump(&args[2], args.get(3).map(String::as_str) == Some("blob")),
        _ => {
            eprintln!("usage: verif-replay workload <dir> <name> | dump <dir> [blob]");
            2
        }
    };
    std::process::exit(rc);
}

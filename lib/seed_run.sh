#!/bin/bash
# usage: seed_run.sh <SEED_ID> <PROP> [extra check args]
# Runs a check against a seeded change without touching /repo: a scratch copy of /repo with the
# patch applied is passed to the driver through VERIF_REPO (own scratch root so caches do not mix).
ID=$1; PROP=$2; shift 2
R=/tmp/seedrepo_$ID
rm -rf $R && mkdir -p $R && rsync -a --exclude /target --exclude /.git /repo/ $R/ || exit 2
( cd $R && git init -q . 2>/dev/null; git -C $R apply /verif/seeded/$ID/patch.diff ) || { echo "patch does not apply"; exit 2; }
cd /verif && VERIF_REPO=$R VERIF_SCRATCH=/var/tmp/verif-scratch-seed ./check $PROP --no-evidence "$@" > /var/tmp/seed_${ID}_${PROP}.log 2>&1; rc=$?
rm -rf $R
echo "seed $ID vs $PROP: exit $rc"; grep -E "VIOLATION|INCONCLUSIVE|refuted|tier=" /var/tmp/seed_${ID}_${PROP}.log | cut -c1-260 | head -8

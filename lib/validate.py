#!/usr/bin/env python3
import json, sys, glob
import jsonschema
ev = json.load(open('/root/.vp/EVIDENCE.schema.json'))
mf = json.load(open('/root/.vp/MANIFEST.schema.json'))
ok = True
try:
    jsonschema.validate(json.load(open('/verif/MANIFEST.json')), mf); print('MANIFEST ok')
except Exception as e:
    ok = False; print('MANIFEST INVALID', str(e)[:500])
for f in sorted(glob.glob('/verif/evidence/*.json')):
    try:
        jsonschema.validate(json.load(open(f)), ev); print(f, 'ok')
    except Exception as e:
        ok = False; print(f, 'INVALID', str(e)[:500])
sys.exit(0 if ok else 1)

#!/usr/bin/env python3
"""Native corruption replay for C10 (validation / demonstration, not the deciding step):
build a small tree with the real code, flip one bit of one byte of one persisted file at a time
(and truncate each file at a few lengths), reopen with the real `Config::open`, read everything,
and classify: error | identical | DIFFERENT (served different data = violation of C10).

usage: corruptsim.py <workload: std|blob> [--files REGEX] [--stride N]
"""
import json, os, re, shutil, subprocess, sys, tempfile
sys.path.insert(0, os.path.dirname(os.path.abspath(__file__)))
import crashsim


def run(name, blob, files_re=".*", stride=1, log=print):
    crashsim.build()
    base = tempfile.mkdtemp(prefix="corrupt-base-", dir=crashsim.SCRATCH)
    work = tempfile.mkdtemp(prefix="corrupt-img-", dir=crashsim.SCRATCH)
    try:
        p = subprocess.run([crashsim.BIN, "workload", base, name], capture_output=True, text=True)
        if p.returncode != 0:
            raise RuntimeError("workload failed: " + p.stdout + p.stderr)
        rc0, kv0, out0 = crashsim.dump_copy(base, blob, work)
        if rc0 != 0:
            raise RuntimeError("baseline does not open: " + out0)
        rep = {"workload": name, "cases": 0, "error": 0, "identical": 0, "panic": 0, "different": []}
        fr = re.compile(files_re)
        for root, dirs, files in os.walk(base):
            for fn in sorted(files):
                path = os.path.join(root, fn)
                rel = os.path.relpath(path, base)
                if not fr.search(rel) or fn == "lock" or fn.startswith(".tmp"):
                    continue
                data = open(path, "rb").read()
                cases = [("flip", i, 1 << (i % 8)) for i in range(0, len(data), stride)]
                cases += [("trunc", n, 0) for n in sorted({0, 1, len(data) // 2, max(0, len(data) - 1)}) if n < len(data)]
                for kind, i, mask in cases:
                    if kind == "flip":
                        mod = data[:i] + bytes([data[i] ^ mask]) + data[i + 1:]
                    else:
                        mod = data[:i]
                    rc, kv, out = crashsim.dump_copy(base, blob, work, patch=(rel, mod))
                    rep["cases"] += 1
                    if rc in (3, 4):
                        rep["error"] += 1
                    elif rc != 0:
                        rep["panic"] += 1
                    elif out == out0:
                        rep["identical"] += 1
                    else:
                        rep["different"].append({"file": rel, "kind": kind, "at": i, "mask": mask,
                                                 "got": out.strip().splitlines()[-6:], "expected": out0.strip().splitlines()[-6:]})
        return rep
    finally:
        shutil.rmtree(base, ignore_errors=True)
        shutil.rmtree(work, ignore_errors=True)


if __name__ == "__main__":
    name = sys.argv[1]
    fr = ".*"
    stride = 1
    if "--files" in sys.argv:
        fr = sys.argv[sys.argv.index("--files") + 1]
    if "--stride" in sys.argv:
        stride = int(sys.argv[sys.argv.index("--stride") + 1])
    rep = run(name, name.startswith("blob"), fr, stride)
    print(json.dumps({k: (v if not isinstance(v, list) else v[:5]) for k, v in rep.items()}, indent=1))
    print("cases=%d error=%d identical=%d panic=%d DIFFERENT=%d" % (rep["cases"], rep["error"], rep["identical"], rep["panic"], len(rep["different"])))
    sys.exit(1 if rep["different"] else 0)

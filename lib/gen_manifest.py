#!/usr/bin/env python3
"""Regenerates /verif/MANIFEST.json from obligations.toml (claimed properties) and na.toml (not applicable)."""
import json, os, tomllib
V = os.path.dirname(os.path.dirname(os.path.abspath(__file__)))
cfg = tomllib.load(open(os.path.join(V, "obligations.toml"), "rb"))
props = [json.loads(l) for l in open(os.path.join(V, "properties.jsonl"))]
ids = [p["id"] for p in props]
na = cfg.get("not_applicable", {})
checks = []
for pid in ids:
    if pid not in cfg["property"]:
        continue
    p = cfg["property"][pid]
    engines = sorted({cfg["ob"][o.split("~")[0]].get("engine", "kani") for o in p["obligations"]})
    XS_ = {"O19.2", "O15.4", "O17.3", "O1.4", "O15.3", "O4.1", "O4.5", "O1.6", "O5.4"}
    obs_ = {o.split("~")[0] for o in p["obligations"]}
    parts = []
    if "kani" in engines:
        parts.append("Kani 0.68 / CBMC 6.11 bounded model checking of the compiled functions (kani::any() inputs, unwinding assertions on)")
    if any(cfg["ob"][o].get("engine") == "mir" and o not in XS_ for o in obs_):
        parts.append("SMT (z3 4.8.12 + cvc5 1.0 cross-check) over event automata generated from the nightly MIR dump of the real functions (step-indexed bounded model checking of the control-flow graph; integer glue facts as bit-vector equivalences)")
    if obs_ & XS_:
        parts.append("bounded symbolic execution of the functions' MIR with bit-vector data (one SMT query per path and requirement; cvc5 with the integer encoding of bit-vectors decides, a second solver cross-checks)")
    eng = " + ".join(parts)
    checks.append({
        "property_id": pid,
        "quick_cmd": "./check %s --tier quick" % pid,
        "thorough_cmd": "./check %s --tier thorough" % pid,
        "evidence_file": "evidence/%s.json" % pid,
        "replay_cmd_template": "./check %s --replay {path}" % pid,
        "engine": "+".join(engines),
        "level_claimed": {
            "category": "model_checking",
            "text": p.get("level_text", "Each mechanism the property rests on is a contract of one real function (or small cluster); "
                          "every contract is decided by the solver for all inputs inside the stated bound on the code currently in /repo. "
                          "The property follows from the contracts by the written reduction argument; what that argument takes on trust is listed as outside the claim."),
            "design_ref": "DESIGN.md section 4." + str(int(pid[1:]))},
        "level_note": "Obligations: " + ", ".join(p["obligations"]) + ". Reduction: " + p.get("reduction", "") +
                      " Outside the claim: " + p.get("outside", "") +
                      " Trusted: dependency models in /verif/models (byteview, crossbeam-skiplist, xxhash-rust as uninterpreted function, quick_cache), Kani stubs listed in the evidence, Kani/CBMC/CaDiCaL, z3/cvc5.",
        "technique": eng})
m = {
    "version": 1,
    "setup_cmd": "./setup.sh",
    "hooks": {"guard": "kani", "enable": "no source hooks: harness modules are appended to a scratch copy of /repo under cfg(kani), which cargo kani sets itself",
              "baseline_off_cmd": "cd /repo && cargo test --workspace --no-fail-fast --offline",
              "source_commits": [], "add_only": True},
    "engines": [
        {"name": "K", "path": "check (lib/driver.py, harness/, models/)", "serves_properties": [c["property_id"] for c in checks if "kani" in c["engine"]],
         "kind_free_text": "Kani 0.68 / CBMC 6.11 bounded model checking of the real functions, symbolic inputs, unwinding assertions on"},
        {"name": "M", "path": "mirsym/ (mir.py, bmc.py, glue.py, specs.py)", "serves_properties": [c["property_id"] for c in checks if "mir" in c["engine"]],
         "kind_free_text": "MIR (-Zunpretty=mir) event automata + z3/cvc5: ordering, fault and structure properties of I/O-bound functions"},
        {"name": "X", "path": "mirsym/ (symex.py, xspecs.py)", "serves_properties": [pid for pid in ids if pid in cfg["property"] and ({o.split("~")[0] for o in cfg["property"][pid]["obligations"]} & {"O19.2", "O15.4", "O17.3", "O1.4", "O15.3", "O4.1", "O4.5", "O1.6", "O5.4"})],
         "kind_free_text": "bounded symbolic execution of MIR with data (bit-vectors, symbolic enums, iterator algebra, library models) + cvc5/z3"}],
    "checks": checks,
    "notes": "Exit codes: 0 all obligations proved within bounds; 1 refuted + replayed (VIOLATION line); 2 inconclusive (build failure of a harness, timeout, OOM, vacuous harness, non-reproducing counterexample).",
    "not_applicable": [{"property_id": pid, "reason": na[pid]} for pid in ids if pid not in cfg["property"]],
}
for pid in ids:
    if pid not in cfg["property"] and pid not in na:
        raise SystemExit("property %s neither claimed nor in [not_applicable]" % pid)
json.dump(m, open(os.path.join(V, "MANIFEST.json"), "w"), indent=1)
print("MANIFEST.json:", len(checks), "checks,", len(m["not_applicable"]), "not applicable")

# ---- COVERAGE.md: property -> obligations (engine, claim), generated
lines = ["# Coverage by property (generated from obligations.toml by lib/gen_manifest.py)", "",
         "Engine K = Kani/CBMC harness over the compiled crate; engine M = event automaton over the function's MIR, decided by z3 + cvc5;",
         "engine X = bounded symbolic execution of the function's MIR with data, decided by cvc5 (integer encoding) + cross-check.",
         "`Ox.y~regex` = only the queries / harness instances of that obligation whose name matches.", ""]
XS = {"O19.2", "O15.4", "O17.3", "O1.4", "O15.3", "O4.1", "O4.5", "O1.6", "O5.4"}
for pid in sorted(cfg["property"]):
    p = cfg["property"][pid]
    lines.append("## %s" % pid)
    lines.append("")
    if p.get("level_text"):
        lines.append("*%s*" % p["level_text"])
        lines.append("")
    lines.append("| obligation | engine | decides |")
    lines.append("|---|---|---|")
    for e in p["obligations"]:
        o, _, m = e.partition("~")
        ob = cfg["ob"][o]
        eng = "X" if o in XS else ("M" if ob.get("engine") == "mir" else "K")
        claim = ob.get("claim", "").replace("|", "\\|")
        lines.append("| %s%s | %s | %s |" % (o, (" ~ `%s`" % m.replace("|", "\\|")) if m else "", eng, claim))
    lines.append("")
    lines.append("Outside the claim: %s" % p.get("outside", "see DESIGN.md"))
    lines.append("")
lines.append("## Not applicable")
lines.append("")
for k, v in cfg.get("not_applicable", {}).items():
    lines.append("* **%s**: %s" % (k, v))
open(os.path.join(V, "COVERAGE.md"), "w").write("\n".join(lines) + "\n")
print("COVERAGE.md written")

#!/bin/bash
# usage: run_some.sh <tier> P1 P2 ...
T=$1; shift
mkdir -p /var/tmp/verif-all
cd /verif
for p in "$@"; do
  s=$(date +%s); ./check $p --tier $T > /var/tmp/verif-all/$p.$T.log 2>&1; rc=$?
  echo "$p $T exit=$rc $(( $(date +%s) - s ))s $(tail -1 /var/tmp/verif-all/$p.$T.log)"
done

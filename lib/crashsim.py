#!/usr/bin/env python3
"""Crash-image replay against the real build (no models): strace a workload of /verif/replay, rebuild
the directory as a POSIX file system may leave it after a crash at a chosen point, reopen it with the
real `Config::open`, and compare with the states at operation boundaries.

Persistence model (the one property C05 states): file data written after the file's last fsync may be
lost (the image keeps the prefix that was fsynced); a directory operation (create / rename / unlink /
mkdir) issued after the directory's last fsync may or may not have reached the disk; rename is atomic;
nothing that was fsynced is lost.

This is *replay and translator validation* for engine M, not the deciding step of any check.

usage: crashsim.py <workload> [--blob] [--marks N] [--out DIR]
       crashsim.py --validate-order           (engine-M event order vs. real syscalls)
"""
import json, os, re, shutil, subprocess, sys, tempfile

VERIF = os.path.dirname(os.path.dirname(os.path.abspath(__file__)))
SCRATCH = os.environ.get("VERIF_SCRATCH", "/var/tmp/verif-scratch")
REPO = os.environ.get("VERIF_REPO", "/repo")
TGT = os.path.join(SCRATCH, "replay-tgt" if REPO == "/repo" else "replay-tgt-alt")
BIN = os.path.join(TGT, "release", "verif-replay")

SYSCALLS = "openat,open,creat,close,fsync,fdatasync,rename,renameat,renameat2,unlink,unlinkat,mkdir,mkdirat,write,pwrite64,ftruncate"


def build():
    env = dict(os.environ)
    env["CARGO_NET_OFFLINE"] = "true"
    env.pop("RUSTFLAGS", None)
    src = os.path.join(VERIF, "replay")
    if REPO != "/repo":
        # checks run against a patched copy of the repository (seeded changes): build against that copy
        src = os.path.join(SCRATCH, "replay-src-alt")
        if os.path.exists(src):
            shutil.rmtree(src)
        shutil.copytree(os.path.join(VERIF, "replay"), src)
        ct = open(os.path.join(src, "Cargo.toml")).read().replace('path = "/repo"', 'path = "%s"' % REPO)
        open(os.path.join(src, "Cargo.toml"), "w").write(ct)
    lock = os.path.join(src, "Cargo.lock")
    if not os.path.exists(lock):
        shutil.copy(os.path.join(REPO, "Cargo.lock"), lock)
    p = subprocess.run(["cargo", "build", "--offline", "--release", "--target-dir", TGT], cwd=src,
                       env=env, capture_output=True, text=True)
    if p.returncode != 0:
        raise RuntimeError("building verif-replay failed:\n" + p.stderr[-2000:])
    return BIN


RE_LINE = re.compile(r"^(\d+)\s+(\w+)\((.*)\)\s+= (-?\d+|\?)(.*)$")


def unhex(s):
    return bytes(int(h, 16) for h in re.findall(r"\\x([0-9a-f]{2})", s))


def parse_strace(path, root):
    """-> list of events dict(kind, path, path2, n, ok) restricted to paths under root
    (strace -xx prints every string, paths included, as \\xNN)"""
    ev = []
    for line in open(path, errors="replace"):
        m = RE_LINE.match(line.strip())
        if not m:
            continue
        _, call, args, ret, tail = m.groups()
        args = re.sub(r'<((?:\\x[0-9a-f]{2})+)>', lambda mm: '<' + unhex(mm.group(1)).decode("utf-8", "replace") + '>', args)
        if call not in ("write", "pwrite64"):
            args = re.sub(r'"((?:\\x[0-9a-f]{2})+)"', lambda mm: '"' + unhex(mm.group(1)).decode("utf-8", "replace") + '"', args)
        ok = ret not in ("?",) and int(ret) >= 0
        mk = re.search(r"/VERIF_MARK_(\d+)", args)
        if mk:
            ev.append({"kind": "mark", "n": int(mk.group(1))})
            continue
        if not ok:
            continue
        if call in ("openat", "open", "creat"):
            pm = re.search(r'"([^"]+)"', args)
            if not pm or not pm.group(1).startswith(root):
                continue
            flags = args
            creat = "O_CREAT" in flags or call == "creat"
            ev.append({"kind": "create" if creat else "open", "path": pm.group(1), "trunc": "O_TRUNC" in flags,
                       "excl": "O_EXCL" in flags})
        elif call in ("write", "pwrite64"):
            pm = re.match(r"\d+<([^>]+)>, \"((?:\\x[0-9a-f]{2})*)\"(\.\.\.)?", args)
            if pm and pm.group(1).startswith(root):
                data = bytes(int(h, 16) for h in re.findall(r"\\x([0-9a-f]{2})", pm.group(2)))
                ev.append({"kind": "write", "path": pm.group(1), "n": int(ret), "data": data[:int(ret)],
                           "complete": pm.group(3) is None and len(data) >= int(ret)})
        elif call in ("fsync", "fdatasync"):
            pm = re.match(r"\d+<([^>]+)>", args)
            if pm and pm.group(1).startswith(root):
                ev.append({"kind": "fsync", "path": pm.group(1)})
        elif call in ("rename", "renameat", "renameat2"):
            ps = re.findall(r'"([^"]+)"', args)
            if len(ps) == 2 and ps[1].startswith(root):
                ev.append({"kind": "rename", "path": ps[0], "path2": ps[1]})
        elif call in ("unlink", "unlinkat"):
            pm = re.search(r'"([^"]+)"', args)
            if pm and pm.group(1).startswith(root):
                ev.append({"kind": "unlink", "path": pm.group(1)})
        elif call in ("mkdir", "mkdirat"):
            pm = re.search(r'"([^"]+)"', args)
            if pm and pm.group(1).startswith(root):
                ev.append({"kind": "mkdir", "path": pm.group(1)})
    return ev


def run_workload(name, blob, upto_mark=None, keep=None):
    """runs the workload in a fresh dir under strace -> (dir, events)"""
    d = keep or tempfile.mkdtemp(prefix="crashsim-", dir=SCRATCH)
    if os.path.exists(d):
        shutil.rmtree(d)
    os.makedirs(d)
    log = d + ".strace"
    env = dict(os.environ)
    if upto_mark is not None:
        env["VERIF_STOP_AT"] = str(upto_mark)
    p = subprocess.run(["strace", "-f", "-y", "-xx", "-s", "2000000", "-e", "trace=" + SYSCALLS, "-o", log, BIN, "workload", d, name],
                       env=env, capture_output=True, text=True)
    ev = parse_strace(log, d)
    os.remove(log)
    return d, ev, p.returncode, p.stdout


class Img:
    """namespace + durability bookkeeping while replaying the event list"""

    def __init__(self):
        self.files = {}  # path -> file id
        self.size = {}  # fid -> bytes written
        self.synced = {}  # fid -> bytes covered by the last fsync
        self.data = {}  # fid -> bytes written so far (reconstructed from the write syscalls)
        self.ops = []  # namespace ops in order: dict(op, dir, durable, ...)
        self.next = 0

    def dir_of(self, p):
        return os.path.dirname(p)


def simulate(events, upto):
    """replays events[:upto]; returns (namespace ops with durability, file sizes/synced sizes, final fid->path)"""
    img = Img()
    for e in events[:upto]:
        k = e["kind"]
        if k == "create":
            p = e["path"]
            if p in img.files and not e["trunc"]:
                continue
            if p in img.files and e["trunc"]:
                fid = img.files[p]
                img.size[fid] = 0
                img.synced[fid] = 0
                img.data[fid] = b""
                continue
            fid = img.next
            img.next += 1
            img.files[p] = fid
            img.size[fid] = 0
            img.synced[fid] = 0
            img.data[fid] = b""
            img.ops.append({"op": "create", "dir": img.dir_of(p), "path": p, "fid": fid, "durable": False})
        elif k == "mkdir":
            img.ops.append({"op": "mkdir", "dir": img.dir_of(e["path"]), "path": e["path"], "durable": False})
        elif k == "write":
            fid = img.files.get(e["path"])
            if fid is not None:
                img.size[fid] += e["n"]
                img.data[fid] = img.data.get(fid, b"") + e.get("data", b"")
        elif k == "fsync":
            p = e["path"]
            if p in img.files:
                fid = img.files[p]
                img.synced[fid] = img.size[fid]
            else:  # a directory: everything done in it so far is durable
                for o in img.ops:
                    if o["dir"] == p:
                        o["durable"] = True
        elif k == "rename":
            a, b = e["path"], e["path2"]
            fid = img.files.pop(a, None)
            old = img.files.get(b)
            if fid is not None:
                img.files[b] = fid
            img.ops.append({"op": "rename", "dir": img.dir_of(b), "path": a, "path2": b, "fid": fid, "old": old, "durable": False})
        elif k == "unlink":
            fid = img.files.pop(e["path"], None)
            img.ops.append({"op": "unlink", "dir": img.dir_of(e["path"]), "path": e["path"], "fid": fid, "durable": False})
    return img


def materialise(img, lost, final_dir, final_files, out, full_content=False):
    """build the crash image: apply every namespace op except those in `lost` (indices of non-durable ops);
    file content = prefix (synced size) of the content the file has in the finished run."""
    if os.path.exists(out):
        shutil.rmtree(out)
    os.makedirs(out)
    ns = {}  # path -> fid
    dirs = set()
    for i, o in enumerate(img.ops):
        if i in lost:
            continue
        if o["op"] == "create":
            ns[o["path"]] = o["fid"]
        elif o["op"] == "mkdir":
            dirs.add(o["path"])
        elif o["op"] == "rename":
            if o["path"] in ns:
                ns[o["path2"]] = ns.pop(o["path"])
            elif o["fid"] is not None and o["path2"] not in ns:
                # the create of the source was lost but the rename persisted: the file is reachable by its new name
                ns[o["path2"]] = o["fid"]
        elif o["op"] == "unlink":
            ns.pop(o["path"], None)
    root = final_dir
    for d in sorted(dirs):
        os.makedirs(os.path.join(out, os.path.relpath(d, root)), exist_ok=True)
    missing = []
    for p, fid in ns.items():
        rel = os.path.relpath(p, root)
        dst = os.path.join(out, rel)
        os.makedirs(os.path.dirname(dst), exist_ok=True)
        data = img.data.get(fid, b"")
        if len(data) != img.size[fid]:
            missing.append(rel)
            continue
        with open(dst, "wb") as f:
            f.write(data[:(img.size[fid] if full_content else img.synced[fid])])
    return missing


def dump(d, blob):
    p = subprocess.run([BIN, "dump", d] + (["blob"] if blob else []), capture_output=True, text=True)
    kv = sorted(l for l in p.stdout.splitlines() if l.startswith("KV "))
    return p.returncode, kv, p.stdout


def dump_copy(base, blob, work, patch=None):
    """copy the directory (opening a tree may delete orphans), optionally replace one file, dump"""
    img = os.path.join(work, "img")
    if os.path.exists(img):
        shutil.rmtree(img)
    shutil.copytree(base, img)
    if patch:
        with open(os.path.join(img, patch[0]), "wb") as f:
            f.write(patch[1])
    return dump(img, blob)


def explore(name, blob, log=print, max_images=400):
    """crash at every operation boundary (mark) and at every event in between; images: all unsynced
    directory ops lost / all kept / each single one lost. -> report dict"""
    build()
    d, ev, rc, out = run_workload(name, blob)
    if rc != 0:
        raise RuntimeError("workload failed: rc=%d %s" % (rc, out))
    marks = [i for i, e in enumerate(ev) if e["kind"] == "mark"]
    # reference states at operation boundaries: image with nothing lost at each mark
    full = simulate(ev, len(ev))
    # fid -> path at the end of the run (content source)
    final_files = {fid: p for p, fid in full.files.items()}
    states = []
    work = tempfile.mkdtemp(prefix="crashimg-", dir=SCRATCH)
    report = {"workload": name, "events": len(ev), "marks": len(marks), "images": 0, "skipped_missing_content": 0,
              "unopenable": [], "mixed": [], "regressed": []}
    try:
        for mi in marks:
            im = simulate(ev, mi)
            miss = materialise(im, set(), d, final_files, os.path.join(work, "ref"), full_content=True)
            rc2, kv, o2 = dump(os.path.join(work, "ref"), blob)
            states.append((mi, kv if rc2 == 0 and not miss else None))
        points = sorted(set(range(marks[0] + 1 if marks else 0, len(ev) + 1)))
        for c in points:
            im = simulate(ev, c)
            nd = [i for i, o in enumerate(im.ops) if not o["durable"]]
            choices = [set(nd), set()] + [{i} for i in nd]
            passed = [j for j, (mi, _) in enumerate(states) if mi < c]
            lo = passed[-1] if passed else None
            for lost in choices:
                if report["images"] >= max_images:
                    break
                img_dir = os.path.join(work, "img")
                miss = materialise(im, lost, d, final_files, img_dir)
                if miss:
                    report["skipped_missing_content"] += 1
                    continue
                report["images"] += 1
                rc2, kv, o2 = dump(img_dir, blob)
                desc = {"crash_after_event": c, "event": ev[c - 1] if c else None,
                        "lost_dir_ops": [im.ops[i] for i in sorted(lost)], "dump": o2.strip().splitlines()[:3]}
                if rc2 != 0:
                    report["unopenable"].append(desc)
                    continue
                allowed = [s for j, (mi, s) in enumerate(states) if s is not None and (lo is None or j >= lo) and j <= (lo + 1 if lo is not None else 0)]
                if allowed and kv not in allowed:
                    report["mixed"].append(desc)
        return report
    finally:
        shutil.rmtree(work, ignore_errors=True)
        shutil.rmtree(d, ignore_errors=True)


def validate_order(log=print):
    """Translator validation for engine M: the order of real syscalls on the fault-free path of
    persist_version / rewrite_atomic / table writer equals the order the MIR automata assume."""
    build()
    d, ev, rc, out = run_workload("std", False)
    shutil.rmtree(d, ignore_errors=True)
    checks = 0
    problems = []
    # every rename onto `current` is preceded by: create vN, writes, fsync vN, fsync dir, create tmp, write, fsync tmp
    for i, e in enumerate(ev):
        if e["kind"] == "rename" and e["path2"].endswith("/current"):
            pre = ev[:i]
            vcreates = [j for j, x in enumerate(pre) if x["kind"] == "create" and re.search(r"/v\d+$", x["path"])]
            if not vcreates:
                problems.append("rename of current without a version file")
                continue
            j = vcreates[-1]
            vpath = pre[j]["path"]
            seq = [x for x in pre[j:]]
            kinds = [(x["kind"], x.get("path")) for x in seq]
            def idx(kind, path):
                for n, (k, p) in enumerate(kinds):
                    if k == kind and p == path:
                        return n
                return None
            w = idx("write", vpath)
            s = max([n for n, (k, p) in enumerate(kinds) if k == "fsync" and p == vpath] or [-1])
            lastw = max([n for n, (k, p) in enumerate(kinds) if k == "write" and p == vpath] or [-1])
            dsync = [n for n, (k, p) in enumerate(kinds) if k == "fsync" and p == os.path.dirname(vpath) and n > s]
            tmp = e["path"]
            ts = [n for n, (k, p) in enumerate(kinds) if k == "fsync" and p == tmp]
            tw = [n for n, (k, p) in enumerate(kinds) if k == "write" and p == tmp]
            ok = w is not None and s > lastw and dsync and ts and tw and max(tw) < max(ts) and dsync[0] < min(tw)
            checks += 1
            if not ok:
                problems.append("syscall order before rename(current) differs from the MIR-derived order: %s" % kinds[-12:])
            post = ev[i + 1:i + 8]
            pk = [(x["kind"], x.get("path")) for x in post]
            if ("fsync", os.path.dirname(e["path2"])) not in pk:
                problems.append("no directory fsync after rename(current)")
    # every table file: fsync(file) then fsync(tables dir) before the next version file is created
    for i, e in enumerate(ev):
        if e["kind"] == "create" and re.search(r"/tables/\d+$", e["path"]):
            rest = ev[i:]
            nxt = [j for j, x in enumerate(rest) if x["kind"] == "create" and re.search(r"/v\d+$", x["path"])]
            seg = rest[:nxt[0]] if nxt else rest
            ks = [(x["kind"], x.get("path")) for x in seg]
            checks += 1
            if ("fsync", e["path"]) not in ks or ("fsync", os.path.dirname(e["path"])) not in ks or \
                    ks.index(("fsync", e["path"])) > max(n for n, k in enumerate(ks) if k == ("fsync", os.path.dirname(e["path"]))):
                problems.append("table file %s not fsynced (file, then directory) before the next version" % e["path"])
    return checks, problems


if __name__ == "__main__":
    if "--validate-order" in sys.argv:
        n, probs = validate_order()
        print(json.dumps({"checks": n, "problems": probs}, indent=1))
        sys.exit(1 if probs else 0)
    name = sys.argv[1]
    rep = explore(name, "--blob" in sys.argv)
    print(json.dumps({k: (v if not isinstance(v, list) else v[:3]) for k, v in rep.items()}, indent=1, default=str))
    print("unopenable=%d mixed=%d images=%d" % (len(rep["unopenable"]), len(rep["mixed"]), rep["images"]))

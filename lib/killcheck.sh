#!/bin/bash
# usage: lib/killcheck.sh <PROP>  - stops a running ./check for that property (and its cbmc children)
P="check $1 "
for pid in $(pgrep -f "$P"); do
  pkill -P $pid 2>/dev/null
  kill $pid 2>/dev/null
done
# cbmc processes working in that property's scratch dir
for pid in $(pgrep cbmc); do
  if ls -l /proc/$pid/cwd 2>/dev/null | grep -q "verif-scratch/$1/"; then kill $pid; fi
done

"""Driver for the solver-based checks (see /verif/DESIGN.md section 3.7)."""
import argparse, concurrent.futures as cf, hashlib, json, os, re, shutil, subprocess, sys, time, tomllib, fcntl

VERIF = os.path.dirname(os.path.dirname(os.path.abspath(__file__)))
REPO = os.environ.get("VERIF_REPO", "/repo")
SCRATCH_ROOT = os.environ.get("VERIF_SCRATCH", "/var/tmp/verif-scratch")
MODELS = ["byteview", "crossbeam-skiplist", "xxhash-rust", "quick_cache"]
EXIT_OK, EXIT_VIOLATION, EXIT_INCONCLUSIVE = 0, 1, 2


def log(*a):
    print(*a, flush=True)


def sha256_file(p):
    h = hashlib.sha256()
    with open(p, "rb") as f:
        h.update(f.read())
    return h.hexdigest()


def load_obligations():
    with open(os.path.join(VERIF, "obligations.toml"), "rb") as f:
        return tomllib.load(f)


# --------------------------------------------------------------------------------------------
# overlay
# --------------------------------------------------------------------------------------------

def module_path_of(attach):
    """src/version/run.rs -> version::run ; src/version/mod.rs -> version ; src/lib.rs -> ''"""
    rel = attach[len("src/"):]
    rel = rel[:-3]
    parts = rel.split("/")
    if parts[-1] in ("mod", "lib"):
        parts = parts[:-1]
    return "::".join(parts)


def harness_fqn(attach, file, fn):
    mp = module_path_of(attach)
    mod = "vk_" + os.path.basename(file)[:-3].removeprefix("k_")
    return "::".join([x for x in (mp, mod, fn) if x])


def build_overlay(scratch, attachments):
    """attachments: {attach source file: [harness file names]}.
    Mirrors /repo into scratch/pristine (rsync --checksum) and materialises scratch/lsm from it,
    touching only files whose desired content changed (keeps cargo fingerprints stable)."""
    os.makedirs(scratch, exist_ok=True)
    pristine = os.path.join(scratch, "pristine")
    lsm = os.path.join(scratch, "lsm")
    os.makedirs(pristine, exist_ok=True)
    os.makedirs(lsm, exist_ok=True)
    subprocess.run(["rsync", "-a", "--checksum", "--delete", "--exclude", "/target", "--exclude", "/.git",
                    "--exclude", "/fuzz", "--exclude", "/tests", "--exclude", "/test_fixture",
                    "--exclude", "/logo.png", REPO + "/", pristine + "/"], check=True)
    desired = {}  # rel path -> bytes
    for root, dirs, files in os.walk(pristine):
        for fn in files:
            p = os.path.join(root, fn)
            rel = os.path.relpath(p, pristine)
            with open(p, "rb") as f:
                desired[rel] = f.read()
    digest = hashlib.sha256()
    for rel in sorted(desired):
        if rel.startswith("src/") or rel == "Cargo.toml":
            digest.update(rel.encode() + b"\0" + hashlib.sha256(desired[rel]).digest())
    source_digest = digest.hexdigest()
    # Cargo.toml: patch in the dependency models
    patch = "\n[patch.crates-io]\n" + "".join(
        '%s = { path = "%s/models/%s" }\n' % (m, VERIF, m) for m in MODELS)
    desired["Cargo.toml"] = desired["Cargo.toml"] + patch.encode()
    # crate attribute needed by the generic Arc::drop_slow stub
    lib = desired["src/lib.rs"].decode()
    lib = "#![cfg_attr(kani, feature(allocator_api, slice_internals))]\n#![cfg_attr(kani, allow(unused, dead_code, clippy::all, clippy::pedantic, clippy::nursery, missing_docs))]\n" + lib
    # hash containers -> vector-backed models (hashbrown's SIMD probing is out of CBMC's reach); overlay only
    a1 = "pub type HashMap<K, V> = std::collections::HashMap<K, V, rustc_hash::FxBuildHasher>;"
    a2 = "pub(crate) type HashSet<K> = std::collections::HashSet<K, rustc_hash::FxBuildHasher>;"
    if a1 in lib and a2 in lib:
        lib = lib.replace(a1, "#[cfg(not(kani))]\n" + a1 + "\n#[cfg(kani)]\n#[doc(hidden)]\n#[allow(missing_docs)]\npub type HashMap<K, V> = crate::vk_collections::VecMap<K, V>;")
        lib = lib.replace(a2, "#[cfg(not(kani))]\n" + a2 + "\n#[cfg(kani)]\npub(crate) type HashSet<K> = crate::vk_collections::VecSet<K>;")
        collections_model = True
    else:
        collections_model = False
    desired["src/lib.rs"] = lib.encode()
    appended = []
    missing = []
    # shared helper module, attached to the crate root
    attachments = dict(attachments)
    attachments.setdefault("src/lib.rs", [])
    if "common.rs" not in attachments["src/lib.rs"]:
        attachments["src/lib.rs"] = ["common.rs", "collections.rs"] + list(attachments["src/lib.rs"])
    attachments.setdefault("src/table/mod.rs", [])
    if "table_synth.rs" not in attachments["src/table/mod.rs"]:
        attachments["src/table/mod.rs"] = ["table_synth.rs"] + list(attachments["src/table/mod.rs"])
    for attach, files in attachments.items():
        if attach not in desired:
            missing.append(attach)
            continue
        extra = ""
        for hf in files:
            src = os.path.join(VERIF, "harness", hf)
            with open(src, "rb") as f:
                desired["src/_verif/" + hf] = f.read()
            modname = "vk_" + hf[:-3].removeprefix("k_")
            depth = attach[len("src/"):].count("/")
            # #[path] on a non-inline module is relative to the directory of the file it is written in
            relp = "../" * depth + "_verif/" + hf
            vis = "pub(crate) " if hf in ("common.rs", "table_synth.rs", "collections.rs") else ""
            line = '\n#[cfg(kani)]\n#[path = "%s"]\n%smod %s;\n' % (relp, vis, modname)
            extra += line
            appended.append({"file": attach, "module": modname, "harness_file": "harness/" + hf})
        desired[attach] = desired[attach] + extra.encode()
    # materialise
    lock_src = os.path.join(pristine, "Cargo.lock")
    lock_stamp = os.path.join(scratch, "lock.sha")
    lock_sha = sha256_file(lock_src) if os.path.exists(lock_src) else ""
    old_sha = open(lock_stamp).read() if os.path.exists(lock_stamp) else None
    for rel, data in desired.items():
        dst = os.path.join(lsm, rel)
        if rel == "Cargo.lock":
            if old_sha == lock_sha and os.path.exists(dst):
                continue
        if os.path.exists(dst):
            with open(dst, "rb") as f:
                if f.read() == data:
                    continue
        os.makedirs(os.path.dirname(dst), exist_ok=True)
        with open(dst, "wb") as f:
            f.write(data)
    with open(lock_stamp, "w") as f:
        f.write(lock_sha)
    for root, dirs, files in os.walk(lsm):
        if os.path.relpath(root, lsm).split(os.sep)[0] == "target":
            dirs[:] = []
            continue
        for fn in files:
            rel = os.path.relpath(os.path.join(root, fn), lsm)
            if rel not in desired:
                os.remove(os.path.join(root, fn))
    return {"lsm": lsm, "tgt": os.path.join(scratch, "tgt"), "source_digest": source_digest,
            "appended": appended, "missing": missing, "collections_model": collections_model}


# --------------------------------------------------------------------------------------------
# engine K
# --------------------------------------------------------------------------------------------

BASE_FLAGS = ["-Z", "stubbing"]
SLOTS = int(os.environ.get("VERIF_SLOTS", "8"))
CHECK_FLAGS = {
    "default": ["--no-memory-safety-checks", "--no-overflow-checks"],
    "arith": [],
}


def kani_env():
    env = dict(os.environ)
    env["CARGO_NET_OFFLINE"] = "true"
    env.pop("RUSTFLAGS", None)
    env["CARGO_TERM_COLOR"] = "never"
    return env


def run_capped(cmd, cwd, timeout_s, mem_gb, logfile):
    """Run under ulimit -v and timeout; returns (rc, seconds, timed_out)."""
    sh = "ulimit -v %d; exec timeout -k 10 %d %s" % (int(mem_gb * 1024 * 1024), int(timeout_s),
                                                      " ".join(shquote(c) for c in cmd))
    t0 = time.time()
    with open(logfile, "w") as lf:
        p = subprocess.run(["bash", "-c", sh], cwd=cwd, env=kani_env(), stdout=lf, stderr=subprocess.STDOUT)
    dt = time.time() - t0
    return p.returncode, dt, p.returncode in (124, 137)


def shquote(s):
    return "'" + s.replace("'", "'\\''") + "'"


RE_SUMMARY = re.compile(r"\*\* (\d+) of (\d+) failed")
RE_COVER = re.compile(r"\*\* (\d+) of (\d+) cover properties satisfied")


def parse_kani_log(text):
    r = {"status": None, "failed_checks": [], "checks_total": 0, "checks_failed": 0, "covers_sat": 0,
         "covers_total": 0, "steps": 0, "vccs": 0, "vccs_remaining": 0, "sat_vars": 0, "sat_clauses": 0,
         "symex_s": 0.0, "solver_s": 0.0, "stubs": [], "undetermined": False}
    if "VERIFICATION:- SUCCESSFUL" in text:
        r["status"] = "SUCCESSFUL"
    elif "VERIFICATION:- FAILED" in text:
        r["status"] = "FAILED"
    m = RE_SUMMARY.search(text)
    if m:
        r["checks_failed"], r["checks_total"] = int(m.group(1)), int(m.group(2))
    m = RE_COVER.search(text)
    if m:
        r["covers_sat"], r["covers_total"] = int(m.group(1)), int(m.group(2))
    for m in re.finditer(r"size of program expression: (\d+) steps", text):
        r["steps"] = max(r["steps"], int(m.group(1)))
    for m in re.finditer(r"Generated (\d+) VCC\(s\), (\d+) remaining after simplification", text):
        r["vccs"], r["vccs_remaining"] = int(m.group(1)), int(m.group(2))
    for m in re.finditer(r"(\d+) variables, (\d+) clauses", text):
        r["sat_vars"] = max(r["sat_vars"], int(m.group(1)))
        r["sat_clauses"] = max(r["sat_clauses"], int(m.group(2)))
    for m in re.finditer(r"Runtime Symex: ([\d.e+-]+)s", text):
        r["symex_s"] += float(m.group(1))
    for m in re.finditer(r"Runtime decision procedure: ([\d.e+-]+)s", text):
        r["solver_s"] += float(m.group(1))
    r["stubs"] = sorted(set(re.findall(r"- Stub: (\S+)", text)))
    # failed / undetermined checks in the regular output format
    blocks = re.split(r"\n(?=Check \d+: )", text)
    for b in blocks:
        if not b.startswith("Check "):
            continue
        st = re.search(r"- Status: (\w+)", b)
        if not st:
            continue
        status = st.group(1)
        if status in ("FAILURE", "UNDETERMINED", "UNSATISFIABLE"):
            name = b.split("\n", 1)[0]
            desc = re.search(r'- Description: "(.*)"', b)
            loc = re.search(r"- Location: (.*)", b)
            r["failed_checks"].append({"check": name.strip(), "status": status,
                                       "description": desc.group(1) if desc else "",
                                       "location": loc.group(1).strip() if loc else ""})
    return r


def classify(parsed, rc, timed_out, text, expect_covers=None, canary=False):
    """-> (verdict, reason).  verdict in proved | refuted | inconclusive | vacuous"""
    if timed_out:
        return "inconclusive", "timeout"
    if re.search(r"error(\[E\d+\])?: ", text) and "could not compile" in text:
        return "inconclusive", "build: " + "; ".join(re.findall(r"error(?:\[E\d+\])?: (.*)", text)[:3])
    if "Out of memory" in text or "CBMC failed with status" in text or "Solver ran out of memory" in text:
        return "inconclusive", "solver out of memory / aborted"
    if parsed["status"] is None:
        if "memory" in text.lower() or "std::bad_alloc" in text or rc in (134, 139):
            return "inconclusive", "out of memory / solver abort (rc=%d)" % rc
        return "inconclusive", "no verdict from CBMC (rc=%d)" % rc
    fails = [c for c in parsed["failed_checks"] if c["status"] == "FAILURE"]
    undet = [c for c in parsed["failed_checks"] if c["status"] == "UNDETERMINED"]
    unwind = [c for c in fails if "unwinding assertion" in c["description"]]
    unsupported = [c for c in fails if "unsupported" in c["description"].lower() or
                   "not currently supported" in c["description"].lower()]
    real = [c for c in fails if c not in unwind and c not in unsupported]
    if parsed["status"] == "SUCCESSFUL":
        if canary:
            return "vacuous", "canary assertion was not refuted"
        if parsed["covers_total"] != parsed["covers_sat"]:
            return "vacuous", "cover witnesses %d/%d" % (parsed["covers_sat"], parsed["covers_total"])
        if expect_covers is not None and parsed["covers_total"] < expect_covers:
            return "vacuous", "expected >= %d cover witnesses, found %d" % (expect_covers, parsed["covers_total"])
        return "proved", ""
    # FAILED
    if unwind:
        return "inconclusive", "unwinding bound too small: " + unwind[0]["location"]
    if unsupported:
        return "inconclusive", "unsupported construct reachable: " + unsupported[0]["description"][:120]
    if real:
        if canary:
            only_canary = all("CANARY" in c["description"] for c in real)
            return ("proved", "") if only_canary else ("refuted", real[0]["description"])
        return "refuted", real[0]["description"]
    if undet:
        return "inconclusive", "undetermined: " + undet[0]["description"][:120]
    if parsed["covers_total"] != parsed["covers_sat"]:
        return "vacuous", "cover witnesses %d/%d" % (parsed["covers_sat"], parsed["covers_total"])
    return "inconclusive", "FAILED without a failed check"


def kani_cmd(fqn, tgt, checks, extra, logfile=None):
    return (["cargo", "kani", "--harness", fqn, "--exact", "--target-dir", tgt] + BASE_FLAGS +
            (["--log-file", logfile] if logfile else []) + CHECK_FLAGS[checks] + list(extra))


class Slot:
    """One of SLOTS target directories shared by all check processes; held under flock while a
    harness compiles and runs in it (cargo kani passes the harness filter to the compiler, so
    concurrent harness runs must not share a target directory)."""

    def __enter__(self):
        root = os.path.join(SCRATCH_ROOT, "slots")
        os.makedirs(root, exist_ok=True)
        while True:
            for k in range(SLOTS):
                f = open(os.path.join(root, "slot%d.lock" % k), "w")
                try:
                    fcntl.flock(f, fcntl.LOCK_EX | fcntl.LOCK_NB)
                    self.f = f
                    self.dir = os.path.join(root, "tgt%d" % k)
                    return self
                except OSError:
                    f.close()
            time.sleep(1.0)

    def __exit__(self, *a):
        fcntl.flock(self.f, fcntl.LOCK_UN)
        self.f.close()


def run_kani_instance(ov, inst, logdir):
    fqn = inst["fqn"]
    logfile = os.path.join(logdir, fqn.replace("::", ".") + ".log")
    vlog = logfile + ".verbose"
    if os.path.exists(vlog):
        os.remove(vlog)
    with Slot() as slot:
        cmd = kani_cmd(fqn, slot.dir, inst.get("checks", "default"), inst.get("flags", []), vlog)
        rc, dt, to = run_capped(cmd, ov["lsm"], inst["timeout"], inst["mem_gb"], logfile)
    text = open(logfile, errors="replace").read()
    if os.path.exists(vlog):
        text += "\n" + open(vlog, errors="replace").read()
    parsed = parse_kani_log(text)
    verdict, reason = classify(parsed, rc, to, text, inst.get("covers"), inst.get("canary", False))
    res = dict(inst)
    res.update({"verdict": verdict, "reason": reason, "wall_s": round(dt, 1), "rc": rc, "log": logfile,
                "cmd": " ".join(cmd), "parsed": parsed})
    return res


def replay_kani(ov, res, prop, logdir):
    """Concrete playback of a refuted harness: returns (reproduced: bool|None, replay_path)."""
    fqn = res["fqn"]
    rdir = os.path.join(VERIF, "replays", prop)
    os.makedirs(rdir, exist_ok=True)
    rpath = os.path.join(rdir, fqn.replace("::", ".") + ".txt")
    lf = os.path.join(logdir, fqn.replace("::", ".") + ".playback-gen.log")
    hf = os.path.join(ov["lsm"], "src/_verif", res["file"])
    before = open(hf).read()
    with Slot() as slot:
        cmd = kani_cmd(fqn, slot.dir, res.get("checks", "default"), res.get("flags", [])) + [
            "-Z", "concrete-playback", "--concrete-playback=inplace"]
        run_capped(cmd, ov["lsm"], res["timeout"] * 2 + 300, 48, lf)
    after = open(hf).read()
    m = re.search(r"fn (kani_concrete_playback_\w+)", after[len(before) - 200 if len(before) > 200 else 0:])
    failed = [c for c in res["parsed"]["failed_checks"] if c["status"] == "FAILURE"]
    header = ["# counterexample for %s (property %s)" % (fqn, prop),
              "# refuted check(s): " + "; ".join("%s @ %s" % (c["description"], c["location"]) for c in failed[:4]),
              "# harness file: /verif/harness/%s ; model checker command: %s" % (res["file"], res["cmd"])]
    if not m or after == before:
        with open(rpath, "w") as f:
            f.write("\n".join(header + ["# concrete playback test could not be generated; see " + lf]) + "\n")
        return None, rpath
    # all generated tests of this harness (Kani also emits tests for cover witnesses, which pass)
    test = "kani_concrete_playback_" + res["harness"] + "_"
    gen = after[len(before):]
    lf2 = os.path.join(logdir, fqn.replace("::", ".") + ".playback-run.log")
    if res.get("replay", "native") == "native":
        cmd2 = ["cargo", "kani", "playback", "-Z", "concrete-playback", "--", test]
        rc, dt, to = run_capped(cmd2, ov["lsm"], 900, 16, lf2)
        out = open(lf2, errors="replace").read()
        ran = re.search(r"test result: (\w+)\. (\d+) passed; (\d+) failed", out)
        reproduced = None
        if ran:
            reproduced = int(ran.group(3)) > 0
        mode = "native run of the generated unit test against the compiled code (cargo kani playback)"
    else:
        reproduced, out, mode = True, "", ("not natively replayable (harness relies on Kani stubs of the file system); "
                                          "the concrete values below were produced by CBMC on the compiled real functions")
    # restore the harness file in the scratch copy
    with open(hf, "w") as f:
        f.write(before)
    with open(rpath, "w") as f:
        f.write("\n".join(header + ["# replay mode: " + mode, "# reproduced: %s" % reproduced,
                                    "# to re-run: ./check %s --only %s" % (prop, res["ob"]), "",
                                    gen, "", "# --- replay output (tail) ---"] +
                          ["# " + l for l in out.splitlines()[-25:]]) + "\n")
    return reproduced, rpath


# --------------------------------------------------------------------------------------------
# known findings
# --------------------------------------------------------------------------------------------

def load_known():
    p = os.path.join(VERIF, "known_findings.json")
    if not os.path.exists(p):
        return {"findings": [], "fixed": []}
    return json.load(open(p))


def match_known(known, prop, ob, harness, descr):
    for k in known.get("findings", []):
        if k["property"] == prop and k.get("obligation") == ob and \
                (k.get("harness") in (None, harness)) and re.search(k.get("match", ".*"), descr):
            return k
    return None


# --------------------------------------------------------------------------------------------
# main
# --------------------------------------------------------------------------------------------

def select_instances(cfg, prop, tier, only):
    p = cfg["property"][prop]
    kani, mir = [], []
    for entry in p["obligations"]:
        # "O13.3~regex": only the queries (engine M / X) or harness instances (engine K) of that obligation whose
        # name matches - a property lists the part of a shared obligation whose failure breaks *that* property
        obid, _, match = entry.partition("~")
        if only and obid not in only:
            continue
        ob = cfg["ob"][obid]
        if ob.get("engine", "kani") == "mir":
            if ob.get("tier", "quick") == "quick" or tier == "thorough":
                o = dict(ob)
                o["ob"] = obid
                if match:
                    o["match"] = match
                mir.append(o)
            continue
        for inst in ob["instances"]:
            if match and not re.search(match, inst["name"]):
                continue
            itier = inst.get("tier", ob.get("tier", "quick"))
            if itier == "thorough" and tier != "thorough":
                continue
            i = {"ob": obid, "file": ob["file"], "attach": ob["attach"], "harness": inst["name"],
                 "fqn": harness_fqn(ob["attach"], ob["file"], inst["name"]),
                 "timeout": inst.get("timeout", ob.get("timeout", 600)) * (3 if tier == "thorough" else 1),
                 "mem_gb": inst.get("mem_gb", ob.get("mem_gb", 10)),
                 "checks": inst.get("checks", ob.get("checks", "default")),
                 "flags": inst.get("flags", ob.get("flags", [])),
                 "covers": inst.get("covers", ob.get("covers")),
                 "canary": inst.get("canary", False),
                 "replay": inst.get("replay", ob.get("replay", "native")),
                 "bound": inst.get("bound", ob.get("bound", "")),
                 "tier": itier}
            kani.append(i)
    return kani, mir


def main(argv):
    ap = argparse.ArgumentParser()
    ap.add_argument("prop")
    ap.add_argument("--tier", default=os.environ.get("VERIF_TIER", "quick"), choices=["quick", "thorough"])
    ap.add_argument("--only", default="")
    ap.add_argument("--jobs", type=int, default=int(os.environ.get("VERIF_JOBS", "6")))
    ap.add_argument("--no-evidence", action="store_true")
    ap.add_argument("--replay", default=None)
    a = ap.parse_args(argv)
    seed = int(os.environ.get("VERIF_SEED", "0") or 0)
    cfg = load_obligations()
    prop = a.prop
    if prop not in cfg["property"]:
        log("unknown or unclaimed property", prop)
        return EXIT_INCONCLUSIVE
    if a.replay:
        log(open(a.replay).read())
        log("re-running the property's check to replay against the current tree")
    only = [x for x in a.only.split(",") if x]
    t0 = time.time()
    kani, mir = select_instances(cfg, prop, a.tier, only)
    # canaries rotate in the quick tier: run a third of them, chosen by seed
    if a.tier == "quick":
        canaries = [i for i in kani if i["canary"]]
        keep = set(id(c) for n, c in enumerate(canaries) if (n + seed) % 3 == 0)
        kani = [i for i in kani if not i["canary"] or id(i) in keep]
    scratch = os.path.join(SCRATCH_ROOT, prop)
    os.makedirs(scratch, exist_ok=True)
    logdir = os.path.join(scratch, "logs")
    os.makedirs(logdir, exist_ok=True)
    results, mir_results = [], []
    ov = None
    lockf = open(os.path.join(scratch, ".lock"), "w")
    fcntl.flock(lockf, fcntl.LOCK_EX)
    try:
        if kani:
            attachments = {}
            for i in kani:
                attachments.setdefault(i["attach"], [])
                if i["file"] not in attachments[i["attach"]]:
                    attachments[i["attach"]].append(i["file"])
            # attach every harness file of the property (both tiers) so the build is tier independent
            allk, _ = select_instances(cfg, prop, "thorough", [])
            for i in allk:
                attachments.setdefault(i["attach"], [])
                if i["file"] not in attachments[i["attach"]]:
                    attachments[i["attach"]].append(i["file"])
            ov = build_overlay(scratch, attachments)
            if ov["missing"]:
                log("source files a harness attaches to are missing:", ov["missing"])
            # build once (serialises the cargo part), then run harnesses in parallel
            bl = os.path.join(logdir, "build.log")
            tb = time.time()
            first = kani[0]
            with Slot() as slot:
                rc, dt, to = run_capped(kani_cmd(first["fqn"], slot.dir, "default", []) + ["--only-codegen"],
                                        ov["lsm"], 1500, 24, bl)
            build_text = open(bl, errors="replace").read()
            build_ok = rc == 0
            log("[build] %s in %.0fs (rc=%d)" % ("ok" if build_ok else "FAILED", time.time() - tb, rc))
            if not build_ok:
                errs = re.findall(r"^error.*(?:\n.*){0,6}", build_text, re.M)[:6]
                for e in errs:
                    log(e)
                for i in kani:
                    r = dict(i)
                    r.update({"verdict": "inconclusive", "reason": "build failed: " + (errs[0].splitlines()[0] if errs else "?"),
                              "wall_s": 0, "parsed": parse_kani_log(""), "cmd": "", "log": bl, "rc": rc})
                    results.append(r)
            else:
                with cf.ThreadPoolExecutor(max_workers=a.jobs) as ex:
                    futs = {ex.submit(run_kani_instance, ov, i, logdir): i for i in kani}
                    for f in cf.as_completed(futs):
                        r = f.result()
                        results.append(r)
                        p = r["parsed"]
                        log("[%s] %-10s %-44s %6.1fs  steps=%d vccs=%d/%d sat=%dv/%dc covers=%d/%d %s" % (
                            r["ob"], r["verdict"], r["harness"] + (" (canary)" if r["canary"] else ""), r["wall_s"],
                            p["steps"], p["vccs_remaining"], p["vccs"], p["sat_vars"], p["sat_clauses"],
                            p["covers_sat"], p["covers_total"], r["reason"]))
        if mir:
            sys.path.insert(0, os.path.join(VERIF, "mirsym"))
            import mirdriver
            mir_results = mirdriver.run(prop, mir, a.tier, scratch, log)
        # ---------------- verdicts ----------------
        known = load_known()
        violations, known_hits, inconclusive = [], [], []
        for r in results:
            if r["verdict"] == "refuted":
                descr = r["reason"]
                k = match_known(known, prop, r["ob"], r["harness"], descr)
                if k:
                    known_hits.append((r, k))
                    continue
                reproduced, rpath = replay_kani(ov, r, prop, logdir)
                r["replay"] = rpath
                r["reproduced"] = reproduced
                if reproduced is False:
                    inconclusive.append((r, "counterexample did not reproduce natively (model artefact?)"))
                else:
                    violations.append((r, rpath))
            elif r["verdict"] in ("inconclusive", "vacuous"):
                inconclusive.append((r, r["reason"]))
        for r in mir_results:
            if r["verdict"] == "refuted":
                k = match_known(known, prop, r["ob"], r.get("query"), r.get("reason", ""))
                if k:
                    known_hits.append((r, k))
                else:
                    violations.append((r, r.get("replay", "")))
            elif r["verdict"] != "proved":
                inconclusive.append((r, r.get("reason", "")))
        wall = time.time() - t0
        if not a.no_evidence and not only:
            write_evidence(cfg, prop, a.tier, seed, results, mir_results, ov, wall, violations, known_hits, inconclusive)
        for r, k in known_hits:
            log("KNOWN-FINDING: property=%s %s" % (prop, k["what"]))
        for r, why in inconclusive:
            log("INCONCLUSIVE: property=%s obligation=%s %s: %s" % (prop, r["ob"], r.get("harness", r.get("query", "")), why))
        for r, rpath in violations:
            log("VIOLATION property=%s replay=%s" % (prop, rpath))
        n = len(results) + len(mir_results)
        log("%s tier=%s: %d obligations instances, %d proved, %d violations, %d known, %d inconclusive, %.0fs" % (
            prop, a.tier, n, sum(1 for r in results + mir_results if r["verdict"] == "proved"),
            len(violations), len(known_hits), len(inconclusive), wall))
        if violations:
            return EXIT_VIOLATION
        if inconclusive or n == 0:
            return EXIT_INCONCLUSIVE
        return EXIT_OK
    finally:
        fcntl.flock(lockf, fcntl.LOCK_UN)


def write_evidence(cfg, prop, tier, seed, results, mir_results, ov, wall, violations, known_hits, inconclusive):
    p = cfg["property"][prop]
    samples = []
    trusted, assumptions = set(), set()
    states = transitions = 0
    for r in results:
        ob = cfg["ob"][r["ob"]]
        pr = r["parsed"]
        states += pr["steps"]
        transitions += pr["sat_clauses"]
        samples.append({
            "obligation": r["ob"], "engine": "kani/cbmc", "harness": r["fqn"], "canary": r["canary"],
            "claim": ob.get("claim", ""), "functions_encoded": ob.get("functions", []),
            "bound": r.get("bound") or ob.get("bound", ""), "verdict": r["verdict"], "reason": r["reason"],
            "checks": pr["checks_total"], "checks_failed": pr["checks_failed"],
            "cover_witnesses": "%d/%d" % (pr["covers_sat"], pr["covers_total"]),
            "program_steps": pr["steps"], "vccs": pr["vccs"], "vccs_after_simplification": pr["vccs_remaining"],
            "sat_variables": pr["sat_vars"], "sat_clauses": pr["sat_clauses"],
            "symex_s": round(pr["symex_s"], 2), "solver_s": round(pr["solver_s"], 2), "wall_s": r["wall_s"],
            "stubs_applied": pr["stubs"], "cmd": r["cmd"]})
        for s in ob.get("stubs", []):
            assumptions.add("stub: " + s)
        for s in pr["stubs"]:
            assumptions.add("stub applied by Kani: " + s)
        for s in ob.get("assumes", []):
            assumptions.add("assume: " + s)
        for s in ob.get("models", ["byteview"]):
            trusted.add("dependency model /verif/models/" + s)
    for r in mir_results:
        states += r.get("states", 0)
        transitions += r.get("transitions", 0)
        samples.append({k: v for k, v in r.items() if k not in ("states", "transitions")})
        for s in r.get("assumptions", []):
            assumptions.add(s)
    trusted |= {"Kani 0.68.0 / CBMC 6.11.0 / CaDiCaL", "rustc (Kani's pinned toolchain) MIR -> goto translation",
                "the reduction argument in DESIGN.md section 4 for this property"}
    if mir_results:
        trusted |= {"z3 (SMT), cross-checked with cvc5", "rustc nightly -Zunpretty=mir text dump + /verif/mirsym parser"}
    n = len(results) + len(mir_results)
    proved = sum(1 for r in results + mir_results if r["verdict"] == "proved")
    ev = {
        "property_id": prop, "tier": tier, "seed": seed, "level": "model_checking",
        "coverage": {
            "states": max(states, 1), "transitions": max(transitions, 1),
            "states_meaning": "sum over harnesses of CBMC 'size of program expression' steps (+ SMT assertions for engine M)",
            "transitions_meaning": "sum over harnesses of SAT clauses of the largest solver instance (+ SMT queries for engine M)",
            "traces_validated_against_impl": sum(1 for r in results if r.get("reproduced")) +
                                             sum(r.get("validated", 0) for r in mir_results),
            "samples": samples, "obligations": n, "discharged": proved,
            "checker_cmd": "./check %s --tier %s" % (prop, tier),
            "trusted_base": sorted(trusted),
            "explanation": p.get("reduction", ""), "outside_the_claim": p.get("outside", ""),
            "source_digest": ov["source_digest"] if ov else None,
            "harness_attachments": ov["appended"] if ov else [],
            "exhaustive": False,
            "solver_seconds": round(sum(r["parsed"]["solver_s"] for r in results) + sum(r.get("solver_s", 0) for r in mir_results), 2),
            "symex_seconds": round(sum(r["parsed"]["symex_s"] for r in results), 2),
            "inconclusive": [{"obligation": r["ob"], "why": why} for r, why in inconclusive],
            "known_findings_hit": [k["what"] for r, k in known_hits],
        },
        "assumptions": sorted(assumptions),
        "wall_s": round(wall, 1), "violations": len(violations)}
    os.makedirs(os.path.join(VERIF, "evidence"), exist_ok=True)
    with open(os.path.join(VERIF, "evidence", prop + ".json"), "w") as f:
        json.dump(ev, f, indent=1)

#!/bin/bash
# runs every claimed property's check sequentially (tier from $1, default quick); logs under /var/tmp/verif-all
T=${1:-quick}
mkdir -p /var/tmp/verif-all
cd /verif
for p in $(python3 -c "import json;print(' '.join(c['property_id'] for c in json.load(open('MANIFEST.json'))['checks']))"); do
  s=$(date +%s); ./check $p --tier $T > /var/tmp/verif-all/$p.$T.log 2>&1; rc=$?
  echo "$p $T exit=$rc $(( $(date +%s) - s ))s $(tail -1 /var/tmp/verif-all/$p.$T.log)"
done

#!/bin/bash
# usage: seed_confirm.sh <SEED_ID> <worktree> <demo test name (tests/<name>.rs)>
# Confirms a seeded change in its scratch worktree: demo fails with it, passes without it, the
# pre-existing suite passes with it. Then copies patch.diff / demo / README into /verif/seeded/<SEED_ID>/.
set -u
ID=$1; WT=$2; DEMO=$3
cd "$WT" || exit 2
export CARGO_NET_OFFLINE=true
git diff -- src > /tmp/seed_$ID.diff
if ! diff -q /tmp/seed_$ID.diff seeded/patch.diff >/dev/null; then echo "NOTE: worktree diff differs from seeded/patch.diff; using worktree diff"; fi
echo "== demo WITH change"; cargo nextest run --offline --test $DEMO 2>&1 | grep -E "Summary|FAIL|PASS" | tail -8
git apply -R /tmp/seed_$ID.diff || exit 2
echo "== demo WITHOUT change"; cargo nextest run --offline --test $DEMO 2>&1 | grep -E "Summary|FAIL|PASS" | tail -8
git apply /tmp/seed_$ID.diff || exit 2
echo "== full suite WITH change"; cargo nextest run --workspace --no-fail-fast --offline --test-threads 8 2>&1 | grep -E "Summary|^\s+FAIL" | sort | uniq | tail -8
mkdir -p /verif/seeded/$ID
cp /tmp/seed_$ID.diff /verif/seeded/$ID/patch.diff
cp tests/$DEMO.rs /verif/seeded/$ID/demo.rs
cp seeded/README.md /verif/seeded/$ID/README.md 2>/dev/null
echo "copied to /verif/seeded/$ID"

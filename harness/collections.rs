//! Verification models of `crate::HashMap` / `crate::HashSet` (std hash map + FxBuildHasher).
//!
//! hashbrown's SIMD group probing is out of reach of CBMC (two inserts of concrete u64 keys into a
//! `HashSet` do not finish symbolic execution in 15 minutes), so - exactly like the four dependency
//! crates - the two type aliases in `src/lib.rs` are pointed at these small vector-backed models *in
//! the Kani overlay only*. Contract: a finite map / set w.r.t. `K: Eq`; iteration order = insertion
//! order (the real one is unspecified, so correct code cannot depend on it).
#![allow(dead_code, clippy::all)]
use std::borrow::Borrow;

pub struct VecMap<K, V> {
    items: Vec<(K, V)>,
}

impl<K, V> Default for VecMap<K, V> {
    fn default() -> Self {
        Self { items: Vec::with_capacity(4) }
    }
}

impl<K: Clone, V: Clone> Clone for VecMap<K, V> {
    fn clone(&self) -> Self {
        let mut items = Vec::with_capacity(self.items.len() + 4);
        for (k, v) in &self.items {
            items.push((k.clone(), v.clone()));
        }
        Self { items }
    }
}

impl<K: std::fmt::Debug, V: std::fmt::Debug> std::fmt::Debug for VecMap<K, V> {
    fn fmt(&self, f: &mut std::fmt::Formatter<'_>) -> std::fmt::Result {
        f.debug_map().entries(self.items.iter().map(|(k, v)| (k, v))).finish()
    }
}

impl<K: Eq, V: PartialEq> PartialEq for VecMap<K, V> {
    fn eq(&self, other: &Self) -> bool {
        self.len() == other.len() && self.items.iter().all(|(k, v)| other.get(k) == Some(v))
    }
}
impl<K: Eq, V: Eq> Eq for VecMap<K, V> {}

pub enum Entry<'a, K, V> {
    Occupied(&'a mut V),
    Vacant(&'a mut Vec<(K, V)>, K),
}

impl<'a, K, V> Entry<'a, K, V> {
    pub fn and_modify<F: FnOnce(&mut V)>(self, f: F) -> Self {
        match self {
            Entry::Occupied(v) => {
                f(v);
                Entry::Occupied(v)
            }
            e => e,
        }
    }
    pub fn or_insert(self, default: V) -> &'a mut V {
        self.or_insert_with(|| default)
    }
    pub fn or_insert_with<F: FnOnce() -> V>(self, f: F) -> &'a mut V {
        match self {
            Entry::Occupied(v) => v,
            Entry::Vacant(items, k) => {
                items.push((k, f()));
                let n = items.len() - 1;
                &mut items[n].1
            }
        }
    }
    pub fn or_default(self) -> &'a mut V
    where
        V: Default,
    {
        self.or_insert_with(V::default)
    }
}

impl<K, V> VecMap<K, V> {
    pub fn new() -> Self {
        Self::default()
    }
    pub fn len(&self) -> usize {
        self.items.len()
    }
    pub fn is_empty(&self) -> bool {
        self.items.is_empty()
    }
    pub fn clear(&mut self) {
        self.items.clear();
    }
    pub fn iter(&self) -> impl Iterator<Item = (&K, &V)> + '_ {
        self.items.iter().map(|(k, v)| (k, v))
    }
    pub fn iter_mut(&mut self) -> impl Iterator<Item = (&K, &mut V)> + '_ {
        self.items.iter_mut().map(|(k, v)| (&*k, v))
    }
    pub fn keys(&self) -> std::iter::Map<std::slice::Iter<'_, (K, V)>, fn(&(K, V)) -> &K> {
        fn key<K, V>(kv: &(K, V)) -> &K {
            &kv.0
        }
        self.items.iter().map(key as fn(&(K, V)) -> &K)
    }
    pub fn with_capacity_and_hasher<S>(capacity: usize, _hasher: S) -> Self {
        Self { items: Vec::with_capacity(capacity.min(8)) }
    }
    pub fn with_hasher<S>(_hasher: S) -> Self {
        Self::default()
    }
    pub fn values(&self) -> impl Iterator<Item = &V> + '_ {
        self.items.iter().map(|(_, v)| v)
    }
    pub fn values_mut(&mut self) -> impl Iterator<Item = &mut V> + '_ {
        self.items.iter_mut().map(|(_, v)| v)
    }
    pub fn into_values(self) -> impl Iterator<Item = V> {
        self.items.into_iter().map(|(_, v)| v)
    }
    pub fn into_keys(self) -> impl Iterator<Item = K> {
        self.items.into_iter().map(|(k, _)| k)
    }
    pub fn retain<F: FnMut(&K, &mut V) -> bool>(&mut self, mut f: F) {
        self.items.retain_mut(|(k, v)| f(k, v));
    }
    pub fn extract_if<F: FnMut(&K, &mut V) -> bool>(&mut self, mut f: F) -> std::vec::IntoIter<(K, V)> {
        let mut kept = Vec::with_capacity(self.items.len() + 1);
        let mut out = Vec::with_capacity(self.items.len() + 1);
        for (k, mut v) in std::mem::take(&mut self.items) {
            if f(&k, &mut v) {
                out.push((k, v));
            } else {
                kept.push((k, v));
            }
        }
        self.items = kept;
        out.into_iter()
    }
    pub fn drain(&mut self) -> std::vec::IntoIter<(K, V)> {
        std::mem::take(&mut self.items).into_iter()
    }
}

impl<K: Eq, V> VecMap<K, V> {
    fn pos<Q: ?Sized + Eq>(&self, k: &Q) -> Option<usize>
    where
        K: Borrow<Q>,
    {
        let mut i = 0;
        while i < self.items.len() {
            if self.items[i].0.borrow() == k {
                return Some(i);
            }
            i += 1;
        }
        None
    }
    pub fn insert(&mut self, k: K, v: V) -> Option<V> {
        match self.pos(&k) {
            Some(i) => Some(std::mem::replace(&mut self.items[i].1, v)),
            None => {
                self.items.push((k, v));
                None
            }
        }
    }
    pub fn get<Q: ?Sized + Eq>(&self, k: &Q) -> Option<&V>
    where
        K: Borrow<Q>,
    {
        self.pos(k).map(|i| &self.items[i].1)
    }
    pub fn get_mut<Q: ?Sized + Eq>(&mut self, k: &Q) -> Option<&mut V>
    where
        K: Borrow<Q>,
    {
        match self.pos(k) {
            Some(i) => Some(&mut self.items[i].1),
            None => None,
        }
    }
    pub fn contains_key<Q: ?Sized + Eq>(&self, k: &Q) -> bool
    where
        K: Borrow<Q>,
    {
        self.pos(k).is_some()
    }
    pub fn remove<Q: ?Sized + Eq>(&mut self, k: &Q) -> Option<V>
    where
        K: Borrow<Q>,
    {
        self.pos(k).map(|i| self.items.remove(i).1)
    }
    pub fn entry(&mut self, k: K) -> Entry<'_, K, V> {
        match self.pos(&k) {
            Some(i) => Entry::Occupied(&mut self.items[i].1),
            None => Entry::Vacant(&mut self.items, k),
        }
    }
}

impl<K: Eq, V> FromIterator<(K, V)> for VecMap<K, V> {
    fn from_iter<I: IntoIterator<Item = (K, V)>>(iter: I) -> Self {
        let mut m = Self::default();
        for (k, v) in iter {
            m.insert(k, v);
        }
        m
    }
}

impl<K: Eq, V> Extend<(K, V)> for VecMap<K, V> {
    fn extend<I: IntoIterator<Item = (K, V)>>(&mut self, iter: I) {
        for (k, v) in iter {
            self.insert(k, v);
        }
    }
}

impl<K, V> IntoIterator for VecMap<K, V> {
    type Item = (K, V);
    type IntoIter = std::vec::IntoIter<(K, V)>;
    fn into_iter(self) -> Self::IntoIter {
        self.items.into_iter()
    }
}

impl<'a, K, V> IntoIterator for &'a VecMap<K, V> {
    type Item = (&'a K, &'a V);
    type IntoIter = std::iter::Map<std::slice::Iter<'a, (K, V)>, fn(&'a (K, V)) -> (&'a K, &'a V)>;
    fn into_iter(self) -> Self::IntoIter {
        fn split<'b, K, V>(kv: &'b (K, V)) -> (&'b K, &'b V) {
            (&kv.0, &kv.1)
        }
        self.items.iter().map(split as fn(&'a (K, V)) -> (&'a K, &'a V))
    }
}

// ------------------------------------------------------------------------------------------------

pub struct VecSet<K> {
    items: Vec<K>,
}

impl<K> Default for VecSet<K> {
    fn default() -> Self {
        Self { items: Vec::with_capacity(4) }
    }
}

impl<K: Clone> Clone for VecSet<K> {
    fn clone(&self) -> Self {
        let mut items = Vec::with_capacity(self.items.len() + 4);
        for k in &self.items {
            items.push(k.clone());
        }
        Self { items }
    }
}

impl<K: std::fmt::Debug> std::fmt::Debug for VecSet<K> {
    fn fmt(&self, f: &mut std::fmt::Formatter<'_>) -> std::fmt::Result {
        f.debug_set().entries(self.items.iter()).finish()
    }
}

impl<K: Eq> PartialEq for VecSet<K> {
    fn eq(&self, other: &Self) -> bool {
        self.len() == other.len() && self.items.iter().all(|k| other.contains(k))
    }
}
impl<K: Eq> Eq for VecSet<K> {}

impl<K> VecSet<K> {
    pub fn new() -> Self {
        Self::default()
    }
    pub fn len(&self) -> usize {
        self.items.len()
    }
    pub fn is_empty(&self) -> bool {
        self.items.is_empty()
    }
    pub fn clear(&mut self) {
        self.items.clear();
    }
    pub fn iter(&self) -> std::slice::Iter<'_, K> {
        self.items.iter()
    }
    pub fn retain<F: FnMut(&K) -> bool>(&mut self, f: F) {
        self.items.retain(f);
    }
    pub fn drain(&mut self) -> std::vec::IntoIter<K> {
        std::mem::take(&mut self.items).into_iter()
    }
}

impl<K: Eq> VecSet<K> {
    pub fn contains<Q: ?Sized + Eq>(&self, k: &Q) -> bool
    where
        K: Borrow<Q>,
    {
        let mut i = 0;
        while i < self.items.len() {
            if self.items[i].borrow() == k {
                return true;
            }
            i += 1;
        }
        false
    }
    pub fn insert(&mut self, k: K) -> bool {
        if self.contains(&k) {
            false
        } else {
            self.items.push(k);
            true
        }
    }
    pub fn remove<Q: ?Sized + Eq>(&mut self, k: &Q) -> bool
    where
        K: Borrow<Q>,
    {
        let mut i = 0;
        while i < self.items.len() {
            if self.items[i].borrow() == k {
                self.items.remove(i);
                return true;
            }
            i += 1;
        }
        false
    }
}

impl<K: Eq> FromIterator<K> for VecSet<K> {
    fn from_iter<I: IntoIterator<Item = K>>(iter: I) -> Self {
        let mut s = Self::default();
        for k in iter {
            s.insert(k);
        }
        s
    }
}

impl<K: Eq> Extend<K> for VecSet<K> {
    fn extend<I: IntoIterator<Item = K>>(&mut self, iter: I) {
        for k in iter {
            self.insert(k);
        }
    }
}

impl<'a, K: Eq + Copy + 'a> Extend<&'a K> for VecSet<K> {
    fn extend<I: IntoIterator<Item = &'a K>>(&mut self, iter: I) {
        for k in iter {
            self.insert(*k);
        }
    }
}

impl<K> IntoIterator for VecSet<K> {
    type Item = K;
    type IntoIter = std::vec::IntoIter<K>;
    fn into_iter(self) -> Self::IntoIter {
        self.items.into_iter()
    }
}

impl<'a, K> IntoIterator for &'a VecSet<K> {
    type Item = &'a K;
    type IntoIter = std::slice::Iter<'a, K>;
    fn into_iter(self) -> Self::IntoIter {
        self.items.iter()
    }
}

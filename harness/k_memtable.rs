//! O1.2 / O2.5b: `Memtable::insert` + `Memtable::get` = newest entry of the key with seqno < S.
//! O18.1: `get_highest_seqno` = max seqno inserted (None when empty).
//! Real code over the sequential ordered-map model of crossbeam-skiplist.
use super::*;
use crate::vk_common::*;
use crate::Slice;

#[derive(Clone, Copy)]
struct E {
    k: u8,
    s: u64,
    t: ValueType,
    v: u8,
}

fn any_e() -> E {
    E { k: kani::any(), s: any_seqno(), t: any_value_type(), v: kani::any() }
}

fn to_iv(e: &E) -> InternalValue {
    InternalValue {
        key: InternalKey { user_key: Slice::from(&[e.k][..]), seqno: e.s, value_type: e.t },
        value: Slice::from(&[e.v][..]),
    }
}

fn o1_2<const N: usize>() {
    let mt = Memtable::new(0);
    let mut es: [E; N] = [any_e(); N];
    for i in 0..N {
        es[i] = any_e();
        // (key, seqno) pairs are unique: one write per key per seqno
        for j in 0..i {
            kani::assume(!(es[j].k == es[i].k && es[j].s == es[i].s));
        }
        mt.insert(to_iv(&es[i]));
    }
    let k: u8 = kani::any();
    let s: u64 = kani::any();
    // reference: entry with key k and the largest seqno < s
    let mut expect: Option<E> = None;
    for e in es.iter() {
        if e.k == k && e.s < s {
            if expect.map_or(true, |x| x.s < e.s) {
                expect = Some(*e);
            }
        }
    }
    let got = mt.get(&[k], s);
    match (expect, &got) {
        (None, None) => {}
        (Some(x), Some(g)) => {
            assert!(g.key.user_key[0] == x.k && g.key.seqno == x.s && g.key.value_type == x.t && g.value[0] == x.v,
                "memtable point read returned the wrong version");
        }
        (None, Some(_)) => panic!("memtable returned an entry that is not visible at this snapshot"),
        (Some(_), None) => panic!("memtable missed a visible entry"),
    }
    // O18.1
    let mut max = 0u64;
    for e in es.iter() {
        if e.s > max {
            max = e.s;
        }
    }
    assert!(mt.get_highest_seqno() == Some(max), "highest memtable seqno differs from the max inserted");
    assert!(mt.len() == N);
    kani::cover!(expect.is_some() && N >= 2 && es[0].k == es[1].k && expect.unwrap().s == es[0].s && es[1].s > es[0].s, "older version chosen by snapshot");
    kani::cover!(expect.is_none() && es[0].k == k && s > 0, "key present but invisible");
    kani::cover!(expect.is_some() && expect.unwrap().s + 1 == s, "boundary seqno");
    std::mem::forget((mt, got));
}

#[kani::proof]
#[kani::unwind(5)]
#[kani::stub(std::alloc::handle_alloc_error, crate::vk_common::alloc_err_stub)]
fn o1_2_memtable_get_n2() {
    o1_2::<2>();
}

#[kani::proof]
#[kani::unwind(6)]
#[kani::stub(std::alloc::handle_alloc_error, crate::vk_common::alloc_err_stub)]
fn o1_2_memtable_get_n3() {
    o1_2::<3>();
}

#[kani::proof]
#[kani::unwind(5)]
fn o18_1_empty_memtable() {
    let mt = Memtable::new(0);
    assert!(mt.get_highest_seqno().is_none());
    assert!(mt.get(&[kani::any::<u8>()], kani::any()).is_none());
    kani::cover!(true);
    std::mem::forget(mt);
}

#[kani::proof]
#[kani::unwind(5)]
#[kani::stub(std::alloc::handle_alloc_error, crate::vk_common::alloc_err_stub)]
fn o1_2_canary() {
    let mt = Memtable::new(0);
    let a = any_e();
    mt.insert(to_iv(&a));
    let s: u64 = kani::any();
    // deliberately false: visibility is strict (seqno < s), not <=
    if a.s == s {
        assert!(mt.get(&[a.k], s).is_some(), "CANARY");
    }
    std::mem::forget(mt);
}

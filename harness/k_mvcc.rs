//! C03 O3.2a: `MvccStream` yields, from either end and under any interleaving of next / next_back,
//! exactly the newest entry of each distinct key, each once, ascending from the front and descending
//! from the back. Source: array-backed double-ended iterator over N sorted entries (1-byte symbolic
//! keys, symbolic seqnos); the snapshot filter sits in front of the stream in `create_range` (O2.5).
use super::*;
use crate::key::InternalKey;
use crate::vk_common::*;
use crate::{Slice, ValueType};

#[derive(Clone, Copy, PartialEq, Eq)]
struct E {
    k: u8,
    s: u64,
}

struct Src<const N: usize> {
    items: [Option<InternalValue>; N],
    lo: usize,
    hi: usize,
}

impl<const N: usize> Iterator for Src<N> {
    type Item = crate::Result<InternalValue>;
    fn next(&mut self) -> Option<Self::Item> {
        if self.lo < self.hi {
            let it = self.items[self.lo].take();
            self.lo += 1;
            it.map(Ok)
        } else {
            None
        }
    }
}

impl<const N: usize> DoubleEndedIterator for Src<N> {
    fn next_back(&mut self) -> Option<Self::Item> {
        if self.lo < self.hi {
            self.hi -= 1;
            self.items[self.hi].take().map(Ok)
        } else {
            None
        }
    }
}

fn o3_2<const N: usize, const OPS: usize>() {
    let mut es = [E { k: 0, s: 0 }; N];
    let mut items: [Option<InternalValue>; N] = [const { None }; N];
    for i in 0..N {
        es[i] = E { k: kani::any(), s: any_seqno() };
        if i > 0 {
            kani::assume(es[i - 1].k < es[i].k || (es[i - 1].k == es[i].k && es[i - 1].s > es[i].s));
        }
        items[i] = Some(InternalValue {
            key: InternalKey { user_key: Slice::from(&[es[i].k][..]), seqno: es[i].s, value_type: ValueType::Value },
            value: Slice::from(&[i as u8][..]),
        });
    }
    // reference: heads = first entry of each key group
    let mut heads = [E { k: 0, s: 0 }; N];
    let mut m = 0;
    for i in 0..N {
        if i == 0 || es[i].k != es[i - 1].k {
            heads[m] = es[i];
            m += 1;
        }
    }
    let mut stream = MvccStream::new(Src::<N> { items, lo: 0, hi: N });
    let mut fi = 0;
    let mut bi = 0;
    for _ in 0..OPS {
        let front: bool = kani::any();
        let got = if front { stream.next() } else { stream.next_back() };
        let expect = if fi + bi < m {
            Some(if front { heads[fi] } else { heads[m - 1 - bi] })
        } else {
            None
        };
        match (expect, got) {
            (None, None) => {}
            (Some(x), Some(Ok(iv))) => {
                assert!(iv.key.user_key[0] == x.k && iv.key.seqno == x.s, "scan yielded the wrong entry (an older version, a duplicate, or out of order)");
                if front { fi += 1 } else { bi += 1 }
                std::mem::forget(iv);
            }
            (Some(_), None) => panic!("scan ended although a key was not yielded yet"),
            (None, Some(_)) => panic!("scan yielded a key twice / more keys than exist"),
            (Some(_), Some(Err(_))) => panic!("error from an error-free source"),
        }
    }
    kani::cover!(m < N && fi + bi == m, "a shadowed version was skipped and every key came out");
    kani::cover!(m == N && fi > 0 && bi > 0 && fi + bi == N, "both ends used until they met");
    std::mem::forget(stream);
}

#[kani::proof]
#[kani::unwind(5)]
#[kani::stub(std::alloc::handle_alloc_error, crate::vk_common::alloc_err_stub)]
fn o3_2_mvcc_stream_n2() {
    o3_2::<2, 3>();
}

#[kani::proof]
#[kani::unwind(6)]
#[kani::stub(std::alloc::handle_alloc_error, crate::vk_common::alloc_err_stub)]
fn o3_2_mvcc_stream_n3() {
    o3_2::<3, 4>();
}

#[kani::proof]
#[kani::unwind(5)]
#[kani::stub(std::alloc::handle_alloc_error, crate::vk_common::alloc_err_stub)]
fn o3_2_canary() {
    let items: [Option<InternalValue>; 2] = [
        Some(InternalValue { key: InternalKey { user_key: Slice::from(&b"a"[..]), seqno: kani::any(), value_type: ValueType::Value }, value: Slice::from(&b"x"[..]) }),
        Some(InternalValue { key: InternalKey { user_key: Slice::from(&b"a"[..]), seqno: kani::any(), value_type: ValueType::Value }, value: Slice::from(&b"y"[..]) }),
    ];
    let mut stream = MvccStream::new(Src::<2> { items, lo: 0, hi: 2 });
    let a = stream.next();
    let b = stream.next();
    assert!(b.is_some(), "CANARY"); // false: the second version of the same key is skipped
    std::mem::forget((stream, a, b));
}

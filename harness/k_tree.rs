//! O1.3: `Tree::get_internal_entry_from_version` - lookup order active -> sealed (newest first) -> tables,
//! first hit wins, tombstone => None.   O15.2: `range_bounds_to_owned_bounds`.
use super::*;
use crate::key::InternalKey;
use crate::tree::sealed::SealedMemtables;
use crate::vk_common::*;
use crate::{Memtable, Slice};

/// The disk part of the lookup is replaced by a symbolic answer (O1.4 covers the real one):
/// `TABLES` = what the tables hold for the probed key (already tombstone-filtered, as the real
/// `get_internal_entry_from_tables` does).
static mut TABLES: Option<(u64, u8)> = None;
static mut TABLES_CONSULTED: u32 = 0;

fn tables_stub(_v: &Version, key: &[u8], seqno: SeqNo) -> crate::Result<Option<InternalValue>> {
    unsafe {
        TABLES_CONSULTED += 1;
        Ok(match TABLES {
            Some((s, v)) if s < seqno => Some(InternalValue {
                key: InternalKey { user_key: Slice::from(key), seqno: s, value_type: ValueType::Value },
                value: Slice::from(&[v][..]),
            }),
            _ => None,
        })
    }
}

#[derive(Clone, Copy)]
struct E {
    k: u8,
    s: u64,
    t: ValueType,
    v: u8,
}

fn to_iv(e: &E) -> InternalValue {
    InternalValue {
        key: InternalKey { user_key: Slice::from(&[e.k][..]), seqno: e.s, value_type: e.t },
        value: Slice::from(&[e.v][..]),
    }
}

/// One optional entry per memtable (sealed#0 = oldest, sealed#1, active = newest); seqnos follow
/// time order: what sits in a newer memtable was written later.
#[kani::proof]
#[kani::unwind(5)]
#[kani::stub(alloc::sync::Arc::drop_slow, crate::vk_common::arc_drop_slow_stub)]
#[kani::stub(std::alloc::handle_alloc_error, crate::vk_common::alloc_err_stub)]
#[kani::stub(crate::tree::Tree::get_internal_entry_from_tables, tables_stub)]
fn o1_3_lookup_order_memtables() {
    // NOTE: fill the memtables *before* moving them behind an Arc: writes through an `Arc` created
    // in the harness cost CBMC orders of magnitude more (pointer provenance is lost in Box::leak)
    let raw = [Memtable::new(1), Memtable::new(2), Memtable::new(3)];
    let mut es: [Option<E>; 3] = [None; 3];
    let mut last_seq: Option<u64> = None;
    for i in 0..3 {
        if kani::any() {
            let e = E { k: kani::any(), s: any_seqno(), t: any_value_type(), v: kani::any() };
            if let Some(l) = last_seq {
                kani::assume(e.s > l);
            }
            last_seq = Some(e.s);
            raw[i].insert(to_iv(&e));
            es[i] = Some(e);
        }
    }
    let [m0, m1, m2] = raw;
    let mts = [Arc::new(m0), Arc::new(m1), Arc::new(m2)];
    let sealed = SealedMemtables::default().add(mts[0].clone()).add(mts[1].clone());
    let sv = SuperVersion {
        active_memtable: mts[2].clone(),
        sealed_memtables: Arc::new(sealed),
        version: crate::vk_common::empty_version(0, 0),
        seqno: 0,
    };
    let k: u8 = kani::any();
    let s: u64 = kani::any();
    // what the tables hold for k: older than everything in the memtables
    let tables: Option<(u64, u8)> = if kani::any() { Some((any_seqno(), kani::any())) } else { None };
    if let Some((ts, _)) = tables {
        for e in es.iter().flatten() {
            kani::assume(ts < e.s);
        }
    }
    unsafe { TABLES = tables };
    let mut expect: Option<E> = match tables {
        Some((ts, tv)) if ts < s => Some(E { k, s: ts, t: ValueType::Value, v: tv }),
        _ => None,
    };
    let mut in_memtables = false;
    for e in es.iter().flatten() {
        if e.k == k && e.s < s {
            expect = Some(*e); // later memtables hold larger seqnos
            in_memtables = true;
        }
    }
    let got = Tree::get_internal_entry_from_version(&sv, &[k], s);
    let got = match got {
        Ok(g) => g,
        Err(_) => panic!("memtable-only lookup failed"),
    };
    match expect {
        Some(x) if !x.t.is_tombstone() => {
            let g = got.as_ref().expect("a visible value was not found");
            assert!(g.key.seqno == x.s && g.value[0] == x.v && g.key.value_type == x.t, "point read returned a stale or wrong version");
        }
        _ => assert!(got.is_none(), "a deleted or invisible key was returned"),
    }
    assert!(unsafe { TABLES_CONSULTED } == if in_memtables { 0 } else { 1 }, "tables must be consulted iff no memtable holds a visible version");
    kani::cover!(!in_memtables && expect.is_some(), "answer comes from the tables");
    kani::cover!(es[0].is_some() && es[1].is_some() && es[0].unwrap().k == k && es[1].unwrap().k == k && expect.is_some() && expect.unwrap().s == es[1].unwrap().s, "newest sealed wins over older sealed");
    kani::cover!(es[2].is_some() && es[1].is_some() && es[2].unwrap().k == k && es[1].unwrap().k == k && expect.is_some() && expect.unwrap().s == es[1].unwrap().s, "snapshot sees sealed although active has a newer one");
    kani::cover!(expect.is_some() && expect.unwrap().t.is_tombstone() && es[0].is_some() && es[0].unwrap().k == k, "tombstone hides older value");
    std::mem::forget((sv, got, mts));
}

/// O15.2: the emptiness flag is set whenever lo > hi; bounds are copied faithfully.
#[kani::proof]
#[kani::unwind(4)]
fn o15_2_range_bounds_to_owned_bounds() {
    use std::ops::Bound;
    let lk: u8 = kani::any();
    let hk: u8 = kani::any();
    kani::assume(lk <= 2 && hk <= 2);
    let lb: [u8; 1] = kani::any();
    let hb: [u8; 1] = kani::any();
    let mk = |kind: u8, b: &[u8; 1]| -> Bound<Vec<u8>> {
        match kind {
            0 => Bound::Unbounded,
            1 => Bound::Included(b.to_vec()),
            _ => Bound::Excluded(b.to_vec()),
        }
    };
    let r = (mk(lk, &lb), mk(hk, &hb));
    let (ob, empty) = Tree::range_bounds_to_owned_bounds::<Vec<u8>, _>(&r);
    if lk != 0 && hk != 0 && lb[0] > hb[0] {
        assert!(empty, "inverted range not flagged empty");
    }
    if empty {
        // flagged empty => really no key inside
        assert!(lk != 0 && hk != 0 && lb[0] > hb[0], "non-empty range flagged empty");
    }
    let ok_lo = match (&ob.start, lk) {
        (Bound::Unbounded, 0) => true,
        (Bound::Included(x), 1) => x[0] == lb[0] && x.len() == 1,
        (Bound::Excluded(x), 2) => x[0] == lb[0] && x.len() == 1,
        _ => false,
    };
    let ok_hi = match (&ob.end, hk) {
        (Bound::Unbounded, 0) => true,
        (Bound::Included(x), 1) => x[0] == hb[0] && x.len() == 1,
        (Bound::Excluded(x), 2) => x[0] == hb[0] && x.len() == 1,
        _ => false,
    };
    assert!(ok_lo && ok_hi, "owned bounds differ from the user's bounds");
    kani::cover!(empty);
    kani::cover!(!empty && lk == 2 && hk == 2 && lb[0] == hb[0]);
    std::mem::forget((ob, r));
}

#[kani::proof]
#[kani::unwind(5)]
#[kani::stub(alloc::sync::Arc::drop_slow, crate::vk_common::arc_drop_slow_stub)]
#[kani::stub(std::alloc::handle_alloc_error, crate::vk_common::alloc_err_stub)]
#[kani::stub(crate::tree::Tree::get_internal_entry_from_tables, tables_stub)]
fn o1_3_canary() {
    let mt = Memtable::new(1);
    let e = E { k: kani::any(), s: any_seqno(), t: any_value_type(), v: kani::any() };
    mt.insert(to_iv(&e));
    let mt = Arc::new(mt);
    let sv = SuperVersion {
        active_memtable: mt,
        sealed_memtables: Arc::default(),
        version: crate::vk_common::empty_version(0, 0),
        seqno: 0,
    };
    let got = Tree::get_internal_entry_from_version(&sv, &[e.k], u64::MAX);
    assert!(matches!(got, Ok(Some(_))), "CANARY"); // false: tombstones read as None
    std::mem::forget(sv);
}

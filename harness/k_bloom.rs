//! O12.5: the standard bloom filter never rejects a hash that was added (no false negatives), through
//! the real builder (`with_bpk` sizing, `set_with_hash`, `build`) and the real reader (`new` parsing
//! the header, `contains_hash`). Double hashing: index_i = h1_i % m with h1_{i+1} = h1_i + h2_i,
//! h2_{i+1} = h2_i * i - the builder and the reader must walk the same sequence.
use super::*;
use crate::table::filter::standard_bloom::StandardBloomFilterReader;

fn check(n: usize, bpk: f32) {
    let mut b = Builder::with_bpk(n, bpk);
    let (m, k) = (b.m, b.k);
    assert!(m % 8 == 0 && m >= 8 && k >= 1);
    let ha: u64 = kani::any();
    let hb: u64 = kani::any();
    b.set_with_hash(ha);
    b.set_with_hash(hb);
    let bytes = b.build();
    let r = match StandardBloomFilterReader::new(&bytes) {
        Ok(r) => r,
        Err(_) => panic!("a filter that was just built does not parse"),
    };
    assert!(r.contains_hash(ha), "false negative: first hash added is rejected");
    assert!(r.contains_hash(hb), "false negative: second hash added is rejected");
    let hc: u64 = kani::any();
    kani::cover!(!r.contains_hash(hc), "some other hash is rejected (the filter is not all ones)");
    kani::cover!(ha != hb && ha % (m as u64) == hb % (m as u64), "two hashes share their first bit");
}

#[kani::proof]
#[kani::unwind(40)]
#[kani::stub(std::alloc::handle_alloc_error, crate::vk_common::alloc_err_stub)]
fn o12_5_bloom_no_false_negative_16bit_k2() {
    check(4, 4.0); // m = 16 bits (2 bytes), k = 2
}

#[kani::proof]
#[kani::unwind(40)]
#[kani::stub(std::alloc::handle_alloc_error, crate::vk_common::alloc_err_stub)]
fn o12_5_bloom_no_false_negative_16bit_k3() {
    check(4, 4.4); // m = 16 bits, k = 3 (the third index is the first one that depends on the h2 recurrence)
}

#[kani::proof]
#[kani::unwind(40)]
#[kani::stub(std::alloc::handle_alloc_error, crate::vk_common::alloc_err_stub)]
fn o12_5_bloom_no_false_negative_24bit_k3() {
    check(5, 4.4); // m = 24 bits (3 bytes, not a power of two), k = 3
}

#[kani::proof]
#[kani::unwind(40)]
#[kani::stub(std::alloc::handle_alloc_error, crate::vk_common::alloc_err_stub)]
fn o12_5_bloom_no_false_negative_24bit_k6() {
    check(2, 10.0); // m = 24 bits (3 bytes), k = 6
}

#[kani::proof]
#[kani::unwind(40)]
#[kani::stub(std::alloc::handle_alloc_error, crate::vk_common::alloc_err_stub)]
fn o12_5_bloom_no_false_negative_8bit_k1() {
    check(1, 2.0); // m = 8 bits, k = 1
}

//! Synthetic `Table` values for harnesses that only need table *metadata* (id, key range, seqnos,
//! size, creation time, global seqno). Built field by field (this module is a child of `crate::table`
//! because several fields are `pub(super)`). `block_index` is an uninitialised allocation that no
//! harness may reach (anything reading table *contents* is stubbed); the file descriptor is fake.
#![allow(dead_code)]
use super::block_index::BlockIndexImpl;
use super::inner::Inner;
use super::meta::ParsedMeta;
use super::regions::ParsedRegions;
use super::*;
use crate::file_accessor::FileAccessor;
use std::sync::atomic::AtomicBool;
use std::sync::{Arc, OnceLock};

pub struct Spec {
    pub id: u64,
    pub min: u8,
    pub max: u8,
    pub seqnos: (u64, u64),
    pub global_seqno: u64,
    pub file_size: u64,
    pub created_at: u128,
    pub blob_bytes: Option<u64>,
}

impl Spec {
    pub fn new(id: u64, min: u8, max: u8) -> Self {
        Self { id, min, max, seqnos: (0, 0), global_seqno: 0, file_size: 1, created_at: 0, blob_bytes: Some(0) }
    }
}

pub fn table(s: &Spec) -> Table {
    let block_index: Arc<BlockIndexImpl> =
        unsafe { std::mem::transmute(Arc::new(std::mem::MaybeUninit::<BlockIndexImpl>::uninit())) };
    let file = unsafe { <std::fs::File as std::os::fd::FromRawFd>::from_raw_fd(1000) };
    let cached = OnceLock::new();
    if let Some(b) = s.blob_bytes {
        let _ = cached.set(b);
    }
    Table(Arc::new(Inner {
        path: Arc::new(std::path::PathBuf::new()),
        tree_id: 0,
        file_accessor: FileAccessor::File(Arc::new(file)),
        metadata: ParsedMeta {
            id: s.id,
            created_at: s.created_at.into(),
            data_block_count: 1,
            index_block_count: 1,
            key_range: crate::KeyRange::new((crate::Slice::from(&[s.min][..]), crate::Slice::from(&[s.max][..]))),
            seqnos: s.seqnos,
            file_size: s.file_size,
            item_count: 1,
            tombstone_count: 0,
            weak_tombstone_count: 0,
            weak_tombstone_reclaimable: 0,
            data_block_compression: crate::CompressionType::None,
            index_block_compression: crate::CompressionType::None,
        },
        regions: ParsedRegions {
            tli: BlockHandle::new(BlockOffset(0), 0),
            index: None,
            filter_tli: None,
            filter: None,
            linked_blob_files: None,
            metadata: BlockHandle::new(BlockOffset(0), 0),
        },
        block_index,
        cache: Arc::new(crate::Cache::with_capacity_bytes(0)),
        pinned_filter_index: None,
        pinned_filter_block: None,
        is_deleted: AtomicBool::new(false),
        checksum: crate::Checksum::from_raw(u128::from(s.id)),
        global_seqno: s.global_seqno,
        cached_blob_bytes: cached,
    }))
}

/// Overrides what `Table::get` answers (for lookup-order harnesses): per table id at most one entry.
pub static mut STORE: [Option<(u64, u8, u64, u8, u8)>; 4] = [None; 4]; // (table id, key, seqno, type tag, value)

//! Shared helpers for the Kani harnesses (attached to the crate root as `crate::vk_common`).
#![allow(dead_code, unused_imports)]
use crate::key::InternalKey;
use crate::value::InternalValue;
use crate::{SeqNo, Slice, ValueType};

// ---- tractability stubs (DESIGN.md 3.3) -----------------------------------------------------

/// "leak instead of free": destructors of values behind an Arc do not run.
pub fn arc_drop_slow_stub<T: ?Sized, A: std::alloc::Allocator>(_a: &mut std::sync::Arc<T, A>) {}

/// allocation failure is out of scope
pub fn alloc_err_stub(_l: std::alloc::Layout) -> ! {
    kani::assume(false);
    loop {}
}

/// error-path message formatting is irrelevant to every obligation
pub fn format_stub(_a: std::fmt::Arguments<'_>) -> String {
    String::new()
}

/// std's stable sort (`sort_by`, `sort_by_key`) replaced by a plain stable insertion sort: the driftsort
/// machinery (scratch buffers, bidirectional merges) explodes under CBMC even for 2 elements.
/// Contract relied on: "a stable sort". Bounded to slices of <= 4 elements (checked).
pub fn stable_sort_stub<T, F: FnMut(&T, &T) -> bool, BufT: core::slice::sort::stable::BufGuard<T>>(v: &mut [T], is_less: &mut F) {
    let n = v.len();
    assert!(n <= 4, "sort stub: more than 4 elements");
    let mut i = 1;
    while i < n {
        let mut j = i;
        while j > 0 && is_less(&v[j], &v[j - 1]) {
            v.swap(j, j - 1);
            j -= 1;
        }
        i += 1;
    }
}

// ---- symbolic inputs ------------------------------------------------------------------------

pub fn any_value_type() -> ValueType {
    let vt: u8 = kani::any();
    kani::assume(vt <= 2 || vt == 4);
    match vt {
        0 => ValueType::Value,
        1 => ValueType::Tombstone,
        2 => ValueType::WeakTombstone,
        _ => ValueType::Indirection,
    }
}

/// Seqnos below 2^63: what `SequenceNumberCounter` can hand out (it panics beyond).
pub fn any_seqno() -> SeqNo {
    let s: u64 = kani::any();
    kani::assume(s < (1u64 << 63));
    s
}

/// A key of exactly `L` symbolic bytes.
pub fn any_user_key<const L: usize>() -> Slice {
    let b: [u8; L] = kani::any();
    Slice::from(&b[..])
}

/// 1-byte key from a two-letter alphabet (concrete shape, symbolic content).
pub fn any_key_ab() -> Slice {
    let b: bool = kani::any();
    if b {
        Slice::from(&b"a"[..])
    } else {
        Slice::from(&b"b"[..])
    }
}

pub fn any_internal_value_1b() -> InternalValue {
    let k: [u8; 1] = kani::any();
    let v: [u8; 1] = kani::any();
    let vt = any_value_type();
    InternalValue {
        key: InternalKey {
            user_key: Slice::from(&k[..]),
            seqno: any_seqno(),
            value_type: vt,
        },
        value: if vt.is_tombstone() { Slice::from(&b""[..]) } else { Slice::from(&v[..]) },
    }
}

pub fn ikey_lt(a: &InternalKey, b: &InternalKey) -> bool {
    let (x, y): (&[u8], &[u8]) = (&a.user_key, &b.user_key);
    x < y || (x == y && a.seqno > b.seqno)
}

/// A `Version` with `levels` empty levels (0 = no levels at all: cheapest value whose table lookup
/// yields nothing). `Version::new` builds 7 levels, which multiplies symex cost for harnesses that
/// only need memtables or version identity.
pub fn empty_version(id: u64, levels: usize) -> crate::version::Version {
    let mut v = Vec::with_capacity(levels);
    for _ in 0..levels {
        v.push(crate::version::Level::empty());
    }
    crate::version::Version::from_levels(
        id,
        crate::TreeType::Standard,
        v,
        crate::version::BlobFileList::default(),
        crate::blob_tree::FragmentationMap::default(),
    )
}

//! O13.2: value type tags.
use super::*;

#[kani::proof]
fn o13_2_value_type() {
    let tag: u8 = kani::any();
    match ValueType::try_from(tag) {
        Ok(vt) => {
            assert!(u8::from(vt) == tag, "tag round trip");
            assert!(vt.is_tombstone() == (tag == 1 || tag == 2), "weak tombstones must count as tombstones");
            assert!(vt.is_indirection() == (tag == 4));
        }
        Err(()) => assert!(tag == 3 || tag > 4),
    }
    kani::cover!(tag == 2);
}

//! C10 O10.6: the version file is trusted only if it matches the checksum stored in `current`.
//! Real `decode_current` / `verify_checksum` (generic over `Read`) on in-memory bytes; the writer
//! side is the real `ChecksummedWriter` + the three `write_*` calls `persist_version` uses for
//! `current` (engine M checks persist_version issues exactly those). xxh3 = collision-free UF.
use super::*;
use byteorder::WriteBytesExt;
use std::io::Write;

const N: usize = 8; // bytes of version file content (content-agnostic code: any bytes)

fn written() -> ([u8; N], u64, Vec<u8>, Vec<u8>) {
    let content: [u8; N] = kani::any();
    let id: u64 = kani::any();
    let mut w = crate::checksum::ChecksummedWriter::new(Vec::with_capacity(N));
    w.write_all(&content).unwrap();
    let checksum = w.checksum();
    let mut file = Vec::with_capacity(N);
    file.extend_from_slice(&content);
    let mut current = Vec::with_capacity(25);
    current.write_u64::<LittleEndian>(id).unwrap();
    current.write_u128::<LittleEndian>(checksum.into_u128()).unwrap();
    current.write_u8(0).unwrap();
    assert!(current.len() == 25);
    std::mem::forget(w);
    (content, id, file, current)
}

fn open(current: &[u8], file: &[u8]) -> crate::Result<u64> {
    let (id, expected) = decode_current(&mut &current[..])?;
    verify_checksum(&mut &file[..], expected)?;
    Ok(id)
}

#[kani::proof]
#[kani::unwind(27)]
#[kani::stub(std::alloc::handle_alloc_error, crate::vk_common::alloc_err_stub)]
#[kani::stub(alloc::fmt::format, crate::vk_common::format_stub)]
fn o10_6_version_file_corruption() {
    let (_content, id, mut file, mut current) = written();
    // corrupt one byte of either file (mask 0 = intact); lengths stay concrete (shapes concrete, contents symbolic)
    let in_file: bool = kani::any();
    let mask: u8 = kani::any();
    if in_file {
        let i: usize = kani::any();
        kani::assume(i < N);
        file[i] ^= mask;
    } else {
        let i: usize = kani::any();
        kani::assume(i < 25);
        current[i] ^= mask;
    }
    let res = open(&current, &file);
    match &res {
        Ok(got) => {
            // Accepted: either nothing was altered, or the altered byte is part of the version id, in which case
            // a *different* version file is named (decoded id differs) - and whatever file that is, it is only
            // accepted if its bytes hash to the stored checksum, i.e. (no collisions) if it has the same content.
            assert!((mask == 0 && *got == id) || (!in_file && *got != id), "a corrupted version file / `current` was accepted");
        }
        Err(_) => assert!(mask != 0, "an intact version file was rejected"),
    }
    kani::cover!(in_file && mask != 0 && res.is_err(), "content corruption detected");
    kani::cover!(!in_file && mask != 0 && res.is_err(), "current corruption detected");
    kani::cover!(res.is_ok());
    std::mem::forget((res, file, current));
}

/// Truncations, one concrete length pair per instance.
fn o10_6_trunc<const FLEN: usize, const CLEN: usize>() {
    let (_content, _id, file, current) = written();
    let res = open(&current[..CLEN], &file[..FLEN]);
    assert!(res.is_err(), "a truncated version file / `current` was accepted");
    kani::cover!(true);
    std::mem::forget((res, file, current));
}

#[kani::proof]
#[kani::unwind(27)]
#[kani::stub(std::alloc::handle_alloc_error, crate::vk_common::alloc_err_stub)]
#[kani::stub(alloc::fmt::format, crate::vk_common::format_stub)]
fn o10_6_trunc_file_7() {
    o10_6_trunc::<7, 25>();
}

#[kani::proof]
#[kani::unwind(27)]
#[kani::stub(std::alloc::handle_alloc_error, crate::vk_common::alloc_err_stub)]
#[kani::stub(alloc::fmt::format, crate::vk_common::format_stub)]
fn o10_6_trunc_file_0() {
    o10_6_trunc::<0, 25>();
}

#[kani::proof]
#[kani::unwind(27)]
#[kani::stub(std::alloc::handle_alloc_error, crate::vk_common::alloc_err_stub)]
#[kani::stub(alloc::fmt::format, crate::vk_common::format_stub)]
fn o10_6_trunc_current_24() {
    o10_6_trunc::<8, 24>();
}

#[kani::proof]
#[kani::unwind(27)]
#[kani::stub(std::alloc::handle_alloc_error, crate::vk_common::alloc_err_stub)]
#[kani::stub(alloc::fmt::format, crate::vk_common::format_stub)]
fn o10_6_trunc_current_8() {
    o10_6_trunc::<8, 8>();
}

#[kani::proof]
#[kani::unwind(27)]
#[kani::stub(std::alloc::handle_alloc_error, crate::vk_common::alloc_err_stub)]
#[kani::stub(alloc::fmt::format, crate::vk_common::format_stub)]
fn o10_6_canary() {
    let (_content, _id, mut file, current) = written();
    let i: usize = kani::any();
    kani::assume(i < N);
    file[i] ^= kani::any::<u8>();
    let res = open(&current, &file);
    assert!(res.is_err(), "CANARY"); // false: mask may be 0
    std::mem::forget((res, file, current));
}

//! C19 O19.1: `fifo::Strategy::choose` on a synthetic L0 (one run of N tables, symbolic creation
//! times and sizes, symbolic limit / TTL / clock): drops nothing while within limit and TTL; every
//! expired table goes; among the others the dropped ones are the oldest; dropping stops as soon as
//! the overshoot is covered.
use super::*;
use crate::compaction::state::CompactionState;
use crate::compaction::{Choice, CompactionStrategy};
use crate::table::vk_table_synth::{table, Spec};
use crate::version::{Level, Run, Version};
use std::sync::Arc;

static mut NOW_NANOS: u64 = 0;

fn unix_timestamp_stub() -> std::time::Duration {
    std::time::Duration::from_nanos(unsafe { NOW_NANOS })
}

/// blob bytes linked to each table (by id - 1): symbolic, set by the harness; replaces the
/// file-backed `Table::referenced_blob_bytes`
static mut BLOB_BYTES: [u64; 4] = [0; 4];

fn referenced_blob_bytes_stub(t: &crate::Table) -> crate::Result<u64> {
    Ok(unsafe { BLOB_BYTES[(t.id() as usize - 1) & 3] })
}

fn fake_config() -> &'static crate::Config {
    // a real (leaked, never initialised, never read) allocation of the right size: the strategies
    // checked here ignore their `&Config` argument
    let b: Box<std::mem::MaybeUninit<crate::Config>> = Box::new(std::mem::MaybeUninit::uninit());
    unsafe { &*(Box::leak(b).as_ptr()) }
}

fn o19_1<const N: usize>() {
    let mut created = [0u64; N];
    let mut size = [0u64; N];
    let mut tables = Vec::with_capacity(N);
    for i in 0..N {
        created[i] = kani::any();
        let file: u64 = kani::any();
        let blob: u64 = kani::any();
        kani::assume(file >= 1 && file <= 1000 && blob <= 1000);
        unsafe { BLOB_BYTES[i] = blob };
        // what a table weighs for FIFO = its file + the blob bytes it references
        size[i] = file + blob;
        // distinct creation times (nanosecond clock; ties make "oldest" ambiguous)
        for j in 0..i {
            kani::assume(created[j] != created[i]);
        }
        let mut s = Spec::new(i as u64 + 1, 2 * i as u8, 2 * i as u8 + 1);
        s.created_at = u128::from(created[i]);
        s.file_size = file;
        tables.push(table(&s));
    }
    let level = Level::from_runs(vec![Arc::new(Run::new(tables).unwrap())]);
    let version = Version::from_levels(0, crate::TreeType::Standard, vec![level],
        crate::version::BlobFileList::default(), crate::blob_tree::FragmentationMap::default());
    let limit: u64 = kani::any();
    // TTL from a small set of constants (a symbolic TTL puts a 128-bit multiplier into the formula)
    let ttl: Option<u64> = match kani::any::<u8>() & 3 {
        0 => None,
        1 => Some(0),
        2 => Some(1),
        _ => Some(3_600),
    };
    let now: u64 = kani::any();
    unsafe { NOW_NANOS = now };
    let state = CompactionState::default();

    let choice = Strategy::new(limit, ttl).choose(&version, fake_config(), &state);

    let mut dropped = [false; N];
    match &choice {
        Choice::DoNothing => {}
        Choice::Drop(ids) => {
            assert!(!ids.is_empty());
            for i in 0..N {
                dropped[i] = ids.contains(&(i as u64 + 1));
            }
            assert!(ids.len() == dropped.iter().filter(|x| **x).count(), "FIFO drops a table that is not in L0");
        }
        _ => panic!("FIFO must only drop"),
    }
    // reference
    let cutoff: Option<u128> = match ttl {
        Some(s) if s > 0 => Some(u128::from(now).saturating_sub(u128::from(s) * 1_000_000_000)),
        _ => None,
    };
    // NOTE: the version has no blob *files*, so the implementation's db size counts table files only,
    // while each dropped table is credited with file + referenced blob bytes
    let mut total = 0u64;
    let mut expired = [false; N];
    let mut expired_bytes = 0u64;
    for i in 0..N {
        total += size[i] - unsafe { BLOB_BYTES[i] };
        expired[i] = cutoff.map_or(false, |c| u128::from(created[i]) <= c);
        if expired[i] {
            expired_bytes += size[i];
        }
    }
    // (1) every expired table is dropped
    for i in 0..N {
        if expired[i] {
            assert!(dropped[i], "an expired table was retained");
        }
    }
    // (2) within limit and nothing expired => nothing dropped
    if total <= limit && expired_bytes == 0 {
        assert!(matches!(choice, Choice::DoNothing), "FIFO drops although the tree is within its size limit and TTL");
    }
    // (3) among non-expired tables: no retained table is older than a dropped one
    for i in 0..N {
        for j in 0..N {
            if !expired[i] && !expired[j] && dropped[i] && !dropped[j] {
                assert!(created[i] < created[j], "FIFO dropped a newer table while retaining an older one");
            }
        }
    }
    // (4) a non-expired table is dropped only while the overshoot is not yet covered, and enough is dropped
    let after_ttl = total.saturating_sub(expired_bytes);
    let mut size_dropped = 0u64;
    for i in 0..N {
        if dropped[i] && !expired[i] {
            size_dropped += size[i];
        }
    }
    if after_ttl > limit {
        let overshoot = after_ttl - limit;
        assert!(size_dropped >= overshoot.min(after_ttl), "FIFO stops before the overshoot is covered");
        // minimality: without the newest dropped table the overshoot would not be covered
        let mut newest: Option<usize> = None;
        for i in 0..N {
            if dropped[i] && !expired[i] && newest.map_or(true, |n| created[i] > created[n]) {
                newest = Some(i);
            }
        }
        if let Some(n) = newest {
            assert!(size_dropped - size[n] < overshoot, "FIFO drops more tables than the overshoot requires");
        }
    } else {
        assert!(size_dropped == 0, "FIFO drops live tables although the size limit is respected after TTL drops");
    }
    kani::cover!(matches!(choice, Choice::DoNothing));
    kani::cover!(expired_bytes > 0 && size_dropped > 0, "TTL and size drops together");
    kani::cover!(size_dropped > 0 && dropped.iter().filter(|x| **x).count() < N, "partial size drop");
    std::mem::forget((version, choice, state));
}

#[kani::proof]
#[kani::unwind(5)]
#[kani::stub(alloc::sync::Arc::drop_slow, crate::vk_common::arc_drop_slow_stub)]
#[kani::stub(std::alloc::handle_alloc_error, crate::vk_common::alloc_err_stub)]
#[kani::stub(alloc::fmt::format, crate::vk_common::format_stub)]
#[kani::stub(crate::time::unix_timestamp, unix_timestamp_stub)]
#[kani::stub(crate::table::Table::referenced_blob_bytes, referenced_blob_bytes_stub)]
#[kani::stub(core::slice::sort::stable::sort, crate::vk_common::stable_sort_stub)]
fn o19_1_fifo_choose_n2() {
    o19_1::<2>();
}

#[kani::proof]
#[kani::unwind(6)]
#[kani::stub(alloc::sync::Arc::drop_slow, crate::vk_common::arc_drop_slow_stub)]
#[kani::stub(std::alloc::handle_alloc_error, crate::vk_common::alloc_err_stub)]
#[kani::stub(alloc::fmt::format, crate::vk_common::format_stub)]
#[kani::stub(crate::time::unix_timestamp, unix_timestamp_stub)]
#[kani::stub(crate::table::Table::referenced_blob_bytes, referenced_blob_bytes_stub)]
#[kani::stub(core::slice::sort::stable::sort, crate::vk_common::stable_sort_stub)]
fn o19_1_fifo_choose_n3() {
    o19_1::<3>();
}

#[kani::proof]
#[kani::unwind(5)]
#[kani::stub(alloc::sync::Arc::drop_slow, crate::vk_common::arc_drop_slow_stub)]
#[kani::stub(std::alloc::handle_alloc_error, crate::vk_common::alloc_err_stub)]
#[kani::stub(alloc::fmt::format, crate::vk_common::format_stub)]
#[kani::stub(crate::time::unix_timestamp, unix_timestamp_stub)]
#[kani::stub(crate::table::Table::referenced_blob_bytes, referenced_blob_bytes_stub)]
#[kani::stub(core::slice::sort::stable::sort, crate::vk_common::stable_sort_stub)]
fn o19_1_canary() {
    let mut s = Spec::new(1, 0, 1);
    s.file_size = 10;
    let level = Level::from_runs(vec![Arc::new(Run::new(vec![table(&s)]).unwrap())]);
    let version = Version::from_levels(0, crate::TreeType::Standard, vec![level],
        crate::version::BlobFileList::default(), crate::blob_tree::FragmentationMap::default());
    let state = CompactionState::default();
    let choice = Strategy::new(kani::any(), None).choose(&version, fake_config(), &state);
    assert!(matches!(choice, Choice::DoNothing), "CANARY");
    std::mem::forget((version, choice, state));
}

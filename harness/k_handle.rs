//! C08 O8.1: blob pointers survive their own encoding: `BlobIndirection::encode_into` ->
//! `decode_from` is the identity for every u64 offset / id and u32 sizes, and decoding consumes
//! exactly the encoded bytes (varint loops: u64 needs <= 10 bytes, u32 <= 5).
use super::*;
use crate::coding::{Decode, Encode};

/// a u64 whose LEB128 encoding takes exactly `k` bytes (layout concrete, value symbolic)
fn any_u64_of_len(k: u32) -> u64 {
    let v: u64 = kani::any();
    if k > 1 {
        kani::assume(v >> (7 * (k - 1)) != 0);
    }
    if k < 10 {
        kani::assume(v >> (7 * k) == 0);
    }
    v
}

fn any_u32_of_len(k: u32) -> u32 {
    let v: u32 = kani::any();
    if k > 1 {
        kani::assume(v >> (7 * (k - 1)) != 0);
    }
    if k < 5 {
        kani::assume(v >> (7 * k) == 0);
    }
    v
}

fn roundtrip<const A: u32, const B: u32, const C: u32, const D: u32>() {
    let v = BlobIndirection {
        vhandle: ValueHandle { offset: any_u64_of_len(A), blob_file_id: any_u64_of_len(B), on_disk_size: any_u32_of_len(C) },
        size: any_u32_of_len(D),
    };
    let mut buf: Vec<u8> = Vec::with_capacity(32);
    assert!(v.encode_into(&mut buf).is_ok());
    assert!(buf.len() == (A + B + C + D) as usize, "unexpected varint length");
    buf.push(0xAB); // a trailing byte must be left untouched
    let mut reader = &buf[..];
    let d = match BlobIndirection::decode_from(&mut reader) {
        Ok(d) => d,
        Err(_) => panic!("an encoded blob pointer does not decode"),
    };
    assert!(d.vhandle.blob_file_id == v.vhandle.blob_file_id, "blob file id changed");
    assert!(d.vhandle.offset == v.vhandle.offset, "offset changed");
    assert!(d.vhandle.on_disk_size == v.vhandle.on_disk_size, "on-disk size changed");
    assert!(d.size == v.size, "value size changed");
    assert!(reader.len() == 1 && reader[0] == 0xAB, "decoding consumed more or less than was encoded");
    kani::cover!(true);
    std::mem::forget(buf);
}

macro_rules! rt {
    ($name:ident, $a:expr, $b:expr, $c:expr, $d:expr) => {
        #[kani::proof]
        #[kani::unwind(12)]
        #[kani::stub(std::alloc::handle_alloc_error, crate::vk_common::alloc_err_stub)]
        fn $name() {
            roundtrip::<$a, $b, $c, $d>();
        }
    };
}
rt!(o8_1_roundtrip_len_1_1_1_1, 1, 1, 1, 1);
rt!(o8_1_roundtrip_len_10_10_5_5, 10, 10, 5, 5);
rt!(o8_1_roundtrip_len_2_3_2_3, 2, 3, 2, 3);
rt!(o8_1_roundtrip_len_9_1_5_1, 9, 1, 5, 1);
rt!(o8_1_roundtrip_len_5_8_3_4, 5, 8, 3, 4);

#[kani::proof]
#[kani::unwind(12)]
#[kani::stub(std::alloc::handle_alloc_error, crate::vk_common::alloc_err_stub)]
fn o8_1_canary() {
    let v = BlobIndirection {
        vhandle: ValueHandle { blob_file_id: any_u64_of_len(2), offset: any_u64_of_len(2), on_disk_size: any_u32_of_len(1) },
        size: any_u32_of_len(1),
    };
    let mut buf: Vec<u8> = Vec::with_capacity(32);
    assert!(v.encode_into(&mut buf).is_ok());
    assert!(buf.len() <= 4, "CANARY");
    std::mem::forget(buf);
}

//! C08 O8.1: blob pointers survive their own encoding: `BlobIndirection::encode_into` ->
//! `decode_from` is the identity for every u64 offset / id and u32 sizes, and decoding consumes
//! exactly the encoded bytes (varint loops: u64 needs <= 10 bytes, u32 <= 5).
use super::*;
use crate::coding::{Decode, Encode};

#[kani::proof]
#[kani::unwind(12)]
#[kani::stub(std::alloc::handle_alloc_error, crate::vk_common::alloc_err_stub)]
fn o8_1_blob_indirection_roundtrip() {
    let v = BlobIndirection {
        vhandle: ValueHandle { blob_file_id: kani::any(), offset: kani::any(), on_disk_size: kani::any() },
        size: kani::any(),
    };
    let mut buf: Vec<u8> = Vec::with_capacity(32);
    assert!(v.encode_into(&mut buf).is_ok());
    assert!(buf.len() <= 30);
    // a trailing byte must be left untouched
    buf.push(0xAB);
    let mut reader = &buf[..];
    let d = match BlobIndirection::decode_from(&mut reader) {
        Ok(d) => d,
        Err(_) => panic!("an encoded blob pointer does not decode"),
    };
    assert!(d.vhandle.blob_file_id == v.vhandle.blob_file_id, "blob file id changed");
    assert!(d.vhandle.offset == v.vhandle.offset, "offset changed");
    assert!(d.vhandle.on_disk_size == v.vhandle.on_disk_size, "on-disk size changed");
    assert!(d.size == v.size, "value size changed");
    assert!(reader.len() == 1 && reader[0] == 0xAB, "decoding consumed more or less than was encoded");
    kani::cover!(v.vhandle.offset == u64::MAX && v.size == u32::MAX);
    kani::cover!(v.vhandle.offset == 127 && v.vhandle.blob_file_id == 128);
    std::mem::forget(buf);
}

#[kani::proof]
#[kani::unwind(12)]
#[kani::stub(std::alloc::handle_alloc_error, crate::vk_common::alloc_err_stub)]
fn o8_1_canary() {
    let v = BlobIndirection {
        vhandle: ValueHandle { blob_file_id: kani::any(), offset: kani::any(), on_disk_size: kani::any() },
        size: kani::any(),
    };
    let mut buf: Vec<u8> = Vec::with_capacity(32);
    assert!(v.encode_into(&mut buf).is_ok());
    assert!(buf.len() <= 4, "CANARY");
    std::mem::forget(buf);
}

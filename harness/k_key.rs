//! O1.1: InternalKey order = (user key asc, seqno desc); eq agrees with cmp.
use super::*;
use std::cmp::Ordering;

fn any_key<const L: usize>() -> InternalKey {
    let bytes: [u8; L] = kani::any();
    let len: usize = kani::any();
    kani::assume(len >= 1 && len <= L);
    let vt: u8 = kani::any();
    kani::assume(vt <= 2 || vt == 4);
    InternalKey::new(&bytes[..len], kani::any::<u64>(), ValueType::try_from(vt).unwrap())
}

#[kani::proof]
#[kani::unwind(4)]
fn o1_1_internal_key_order() {
    let a = any_key::<2>();
    let b = any_key::<2>();
    let c = any_key::<2>();
    let spec = |x: &InternalKey, y: &InternalKey| -> Ordering {
        match (*x.user_key).cmp(&*y.user_key) {
            Ordering::Equal => y.seqno.cmp(&x.seqno),
            o => o,
        }
    };
    assert_eq!(a.cmp(&b), spec(&a, &b));
    assert_eq!(a == b, a.cmp(&b) == Ordering::Equal);
    assert_eq!(a.cmp(&b), b.cmp(&a).reverse());
    if a.cmp(&b) != Ordering::Greater && b.cmp(&c) != Ordering::Greater {
        assert!(a.cmp(&c) != Ordering::Greater);
    }
    kani::cover!(a.user_key == b.user_key && a.seqno > b.seqno);
    kani::cover!(a.user_key.len() != b.user_key.len());
}

#[kani::proof]
#[kani::unwind(4)]
fn o1_1_canary() {
    let a = any_key::<2>();
    let b = any_key::<2>();
    // deliberately false: seqno order is descending, not ascending
    if a.user_key == b.user_key && a.seqno < b.seqno {
        assert!(a.cmp(&b) == Ordering::Less, "CANARY");
    }
}

//! C18 O18.2 / C14: table-level seqno arithmetic on synthetic tables.
//! `Table::get_highest_seqno` = seqno#max + global seqno (no wrap for seqnos < 2^63: Rust's overflow
//! check is compiled in, so a wrap would be a reachable panic).
use super::*;
use crate::table::vk_table_synth::{table, Spec};

#[kani::proof]
#[kani::unwind(4)]
#[kani::stub(alloc::sync::Arc::drop_slow, crate::vk_common::arc_drop_slow_stub)]
#[kani::stub(std::alloc::handle_alloc_error, crate::vk_common::alloc_err_stub)]
fn o18_2_table_highest_seqno() {
    let lo: u64 = kani::any();
    let hi: u64 = kani::any();
    let g: u64 = kani::any();
    // what SequenceNumberCounter can hand out; an ingested table stores local seqno 0 and carries g
    kani::assume(lo <= hi && hi < (1u64 << 62) && g < (1u64 << 62));
    let mut s = Spec::new(1, 0, 9);
    s.seqnos = (lo, hi);
    s.global_seqno = g;
    let t = table(&s);
    assert!(t.get_highest_seqno() == hi + g, "persisted high-water mark differs from seqno#max + global seqno");
    assert!(t.global_seqno() == g && t.id() == 1);
    kani::cover!(g > 0 && hi == 0);
    kani::cover!(g == 0 && hi > 0);
    std::mem::forget(t);
}

//! O15.1: `OwnedBounds::contains(range)` is sound: when it says a table's key range is contained,
//! every key of that range satisfies the bounds (so drop_range never selects a table holding a key
//! outside R). Completeness for non-degenerate ranges is asserted too (a contained table is selected).
use super::*;
use crate::{KeyRange, Slice};
use std::ops::Bound;

fn mk(kind: u8, b: u8) -> Bound<Slice> {
    match kind {
        0 => Bound::Unbounded,
        1 => Bound::Included(Slice::from(&[b][..])),
        _ => Bound::Excluded(Slice::from(&[b][..])),
    }
}

#[kani::proof]
#[kani::unwind(4)]
fn o15_1_owned_bounds_contains() {
    let lk: u8 = kani::any();
    let hk: u8 = kani::any();
    kani::assume(lk <= 2 && hk <= 2);
    let lb: u8 = kani::any();
    let hb: u8 = kani::any();
    let bounds = OwnedBounds { start: mk(lk, lb), end: mk(hk, hb) };
    let a: u8 = kani::any();
    let b: u8 = kani::any();
    kani::assume(a <= b);
    let kr = KeyRange::new((Slice::from(&[a][..]), Slice::from(&[b][..])));
    let res = bounds.contains(&kr);
    // any key of the table (1..=2 bytes, between min and max)
    let pb: [u8; 2] = kani::any();
    let pl: usize = if kani::any() { 1 } else { 2 };
    let k = &pb[..pl];
    let in_table = &[a][..] <= k && k <= &[b][..];
    let in_lo = match lk { 0 => true, 1 => k >= &[lb][..], _ => k > &[lb][..] };
    let in_hi = match hk { 0 => true, 1 => k <= &[hb][..], _ => k < &[hb][..] };
    if res && in_table {
        assert!(in_lo && in_hi, "a table holding a key outside the bounds was reported as contained");
    }
    // completeness: min and max inside the bounds => contained
    let min_in = (match lk { 0 => true, 1 => a >= lb, _ => a > lb }) && (match hk { 0 => true, 1 => a <= hb, _ => a < hb });
    let max_in = (match lk { 0 => true, 1 => b >= lb, _ => b > lb }) && (match hk { 0 => true, 1 => b <= hb, _ => b < hb });
    if min_in && max_in {
        assert!(res, "a table inside the bounds was not reported as contained");
    }
    kani::cover!(res && lk == 2 && hk == 2);
    kani::cover!(!res && in_table && in_lo && in_hi);
    std::mem::forget((bounds, kr));
}

#[kani::proof]
#[kani::unwind(4)]
fn o15_1_canary() {
    let lb: u8 = kani::any();
    let bounds = OwnedBounds { start: mk(2, lb), end: Bound::Unbounded };
    let a: u8 = kani::any();
    let kr = KeyRange::new((Slice::from(&[a][..]), Slice::from(&[a][..])));
    if a >= lb {
        assert!(bounds.contains(&kr), "CANARY");
    }
    std::mem::forget((bounds, kr));
}

//! O15.1: `OwnedBounds::contains(range)` is sound: when it says a table's key range is contained,
//! every key of that range satisfies the bounds (so drop_range never selects a table holding a key
//! outside R). Completeness for non-degenerate ranges is asserted too (a contained table is selected).
use super::*;
use crate::{KeyRange, Slice};
use std::ops::Bound;

fn mk(kind: u8, b: u8) -> Bound<Slice> {
    match kind {
        0 => Bound::Unbounded,
        1 => Bound::Included(Slice::from(&[b][..])),
        _ => Bound::Excluded(Slice::from(&[b][..])),
    }
}

#[kani::proof]
#[kani::unwind(4)]
fn o15_1_owned_bounds_contains() {
    let lk: u8 = kani::any();
    let hk: u8 = kani::any();
    kani::assume(lk <= 2 && hk <= 2);
    let lb: u8 = kani::any();
    let hb: u8 = kani::any();
    let bounds = OwnedBounds { start: mk(lk, lb), end: mk(hk, hb) };
    let a: u8 = kani::any();
    let b: u8 = kani::any();
    kani::assume(a <= b);
    let kr = KeyRange::new((Slice::from(&[a][..]), Slice::from(&[b][..])));
    let res = bounds.contains(&kr);
    // any key of the table (1..=2 bytes, between min and max)
    let pb: [u8; 2] = kani::any();
    let pl: usize = if kani::any() { 1 } else { 2 };
    let k = &pb[..pl];
    let in_table = &[a][..] <= k && k <= &[b][..];
    let in_lo = match lk { 0 => true, 1 => k >= &[lb][..], _ => k > &[lb][..] };
    let in_hi = match hk { 0 => true, 1 => k <= &[hb][..], _ => k < &[hb][..] };
    if res && in_table {
        assert!(in_lo && in_hi, "a table holding a key outside the bounds was reported as contained");
    }
    // completeness: min and max inside the bounds => contained
    let min_in = (match lk { 0 => true, 1 => a >= lb, _ => a > lb }) && (match hk { 0 => true, 1 => a <= hb, _ => a < hb });
    let max_in = (match lk { 0 => true, 1 => b >= lb, _ => b > lb }) && (match hk { 0 => true, 1 => b <= hb, _ => b < hb });
    if min_in && max_in {
        assert!(res, "a table inside the bounds was not reported as contained");
    }
    kani::cover!(res && lk == 2 && hk == 2);
    kani::cover!(!res && in_table && in_lo && in_hi);
    std::mem::forget((bounds, kr));
}

#[kani::proof]
#[kani::unwind(4)]
fn o15_1_canary() {
    let lb: u8 = kani::any();
    let bounds = OwnedBounds { start: mk(2, lb), end: Bound::Unbounded };
    let a: u8 = kani::any();
    let kr = KeyRange::new((Slice::from(&[a][..]), Slice::from(&[a][..])));
    if a >= lb {
        assert!(bounds.contains(&kr), "CANARY");
    }
    std::mem::forget((bounds, kr));
}

// ---- O15.3: Strategy::choose on a synthetic version --------------------------------------------
use crate::compaction::state::CompactionState;
use crate::compaction::{Choice, CompactionStrategy};
use crate::table::vk_table_synth::{table, Spec};
use crate::version::{Level, Run, Version};
use std::sync::Arc;

fn fake_config() -> &'static crate::Config {
    // a real (leaked, never initialised, never read) allocation of the right size: the strategies
    // checked here ignore their `&Config` argument
    let b: Box<std::mem::MaybeUninit<crate::Config>> = Box::new(std::mem::MaybeUninit::uninit());
    unsafe { &*(Box::leak(b).as_ptr()) }
}

/// L0: one run of two disjoint tables (ids 1, 2); L1: one table (id 3). Symbolic 1-byte ranges,
/// symbolic bounds of every kind, symbolic hidden table.
#[kani::proof]
#[kani::unwind(5)]
#[kani::stub(alloc::sync::Arc::drop_slow, crate::vk_common::arc_drop_slow_stub)]
#[kani::stub(std::alloc::handle_alloc_error, crate::vk_common::alloc_err_stub)]
#[kani::stub(alloc::fmt::format, crate::vk_common::format_stub)]
fn o15_3_drop_range_choose() {
    let mut r = [(0u8, 0u8); 3];
    for i in 0..3 {
        let lo: u8 = kani::any();
        let hi: u8 = kani::any();
        kani::assume(lo <= hi);
        r[i] = (lo, hi);
    }
    kani::assume(r[0].1 < r[1].0); // run invariant: sorted, disjoint
    let l0 = Level::from_runs(vec![Arc::new(Run::new(vec![table(&Spec::new(1, r[0].0, r[0].1)), table(&Spec::new(2, r[1].0, r[1].1))]).unwrap())]);
    let l1 = Level::from_runs(vec![Arc::new(Run::new(vec![table(&Spec::new(3, r[2].0, r[2].1))]).unwrap())]);
    let version = Version::from_levels(0, crate::TreeType::Standard, vec![l0, l1],
        crate::version::BlobFileList::default(), crate::blob_tree::FragmentationMap::default());
    let lk: u8 = kani::any();
    let hk: u8 = kani::any();
    kani::assume(lk <= 2 && hk <= 2);
    let lb: u8 = kani::any();
    let hb: u8 = kani::any();
    let strategy = Strategy::new(OwnedBounds { start: mk(lk, lb), end: mk(hk, hb) });
    let mut state = CompactionState::default();
    let hidden: u64 = kani::any();
    kani::assume(hidden <= 3); // 0 = nothing hidden
    if hidden > 0 {
        state.hidden_set_mut().hide([hidden]);
    }

    let choice = strategy.choose(&version, fake_config(), &state);

    let inside = |k: u8| -> bool {
        (match lk { 0 => true, 1 => k >= lb, _ => k > lb }) && (match hk { 0 => true, 1 => k <= hb, _ => k < hb })
    };
    match &choice {
        Choice::Drop(ids) => {
            for i in 0..3 {
                let id = i as u64 + 1;
                if ids.contains(&id) {
                    // soundness: every key a dropped table can hold lies inside the range
                    assert!(inside(r[i].0) && inside(r[i].1), "drop_range selected a table that holds keys outside the range");
                    assert!(hidden != id, "drop_range selected a table that is being compacted");
                } else if inside(r[i].0) && inside(r[i].1) {
                    panic!("a table fully inside the range was not selected");
                }
            }
        }
        Choice::DoNothing => {
            assert!(hidden > 0 && inside(r[hidden as usize - 1].0) && inside(r[hidden as usize - 1].1),
                "drop_range declined although no selected table is hidden");
        }
        _ => panic!("drop_range must only drop"),
    }
    kani::cover!(matches!(&choice, Choice::Drop(ids) if ids.len() == 3));
    kani::cover!(matches!(&choice, Choice::Drop(ids) if ids.len() == 1));
    kani::cover!(matches!(choice, Choice::DoNothing));
    std::mem::forget((version, choice, state));
}

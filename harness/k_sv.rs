//! O2.1 get_version_for_snapshot, O2.2/O20.2 maintenance, O2.3/O14.1 upgrade_version_with_seqno
//! bookkeeping, O2.4 replace_latest_version  (src/version/super_version.rs).
//!
//! History shape: N super versions whose `version.id()` is their index (so identity is observable),
//! symbolic non-decreasing seqnos. File-system calls of `maintenance` are stubbed:
//! `Path::try_exists` -> symbolic bool, `std::fs::remove_file` -> counted, succeeds.
use super::*;
use crate::vk_common::*;
use std::path::Path;

static mut REMOVE_CALLS: usize = 0;
static mut EXISTS_TRUE: usize = 0;

fn try_exists_stub(_p: &Path) -> std::io::Result<bool> {
    let b: bool = kani::any();
    if b {
        unsafe { EXISTS_TRUE += 1 };
    }
    Ok(b)
}

fn remove_file_stub<P: AsRef<Path>>(_p: P) -> std::io::Result<()> {
    unsafe { REMOVE_CALLS += 1 };
    Ok(())
}

fn history<const N: usize>() -> ([u64; N], SuperVersions) {
    let mut seqnos = [0u64; N];
    let mut v = std::collections::VecDeque::with_capacity(N + 1);
    for i in 0..N {
        let s: u64 = any_seqno();
        if i > 0 {
            kani::assume(seqnos[i - 1] <= s);
        }
        seqnos[i] = s;
        v.push_back(SuperVersion {
            active_memtable: Arc::new(Memtable::new(0)),
            sealed_memtables: Arc::default(),
            version: Version::new(i as u64, crate::TreeType::Standard),
            seqno: s,
        });
    }
    (seqnos, SuperVersions(v))
}

/// reference: index of the newest entry with seqno < s (front for s = 0)
fn spec_resolve<const N: usize>(seqnos: &[u64; N], from: usize, s: u64) -> Option<usize> {
    if s == 0 {
        return Some(from);
    }
    let mut res = None;
    let mut i = from;
    while i < N {
        if seqnos[i] < s {
            res = Some(i);
        }
        i += 1;
    }
    res
}

fn o2_1<const N: usize>() {
    let (seqnos, h) = history::<N>();
    let s: u64 = kani::any();
    let expect = spec_resolve(&seqnos, 0, s);
    kani::assume(expect.is_some()); // the crate panics ("should always find") otherwise; usage protocol: S > seqno of the oldest entry
    let got = h.get_version_for_snapshot(s);
    assert!(got.version.id() == expect.unwrap() as u64, "snapshot resolves to the wrong super version");
    kani::cover!(expect == Some(0) && s > 0);
    kani::cover!(expect == Some(N - 1));
    kani::cover!(N > 2 && expect == Some(1) && seqnos[1] + 1 == s);
    std::mem::forget((h, got));
}

#[kani::proof]
#[kani::unwind(9)]
#[kani::stub(alloc::sync::Arc::drop_slow, crate::vk_common::arc_drop_slow_stub)]
#[kani::stub(std::alloc::handle_alloc_error, crate::vk_common::alloc_err_stub)]
#[kani::stub(alloc::fmt::format, crate::vk_common::format_stub)]
fn o2_1_get_version_for_snapshot_n3() {
    o2_1::<3>();
}

fn o2_2<const N: usize>() {
    let (seqnos, mut h) = history::<N>();
    let t: u64 = kani::any();
    let s: u64 = kani::any();
    kani::assume(s > t);
    let before = spec_resolve(&seqnos, 0, s);
    kani::assume(before.is_some());
    let res = h.maintenance(Path::new("."), t);
    assert!(res.is_ok());
    let len = h.len();
    let removed = N - len;
    // the newest entry is never removed; what remains is a suffix, untouched
    assert!(len >= 1, "history emptied");
    let mut i = 0;
    while i < len {
        let e = &h.0[i];
        assert!(e.version.id() == (removed + i) as u64 && e.seqno == seqnos[removed + i], "remaining history is not a suffix of the old one");
        i += 1;
    }
    // every snapshot above the watermark still resolves to the same super version
    let after = h.get_version_for_snapshot(s);
    assert!(after.version.id() == before.unwrap() as u64, "maintenance removed the super version a live snapshot resolves to");
    // watermark 0 removes nothing
    if t == 0 {
        assert!(removed == 0);
    }
    // reclaim: at most one retained entry lies below the watermark (C20: everything older is gone)
    if len >= 2 {
        assert!(h.0[1].seqno >= t, "an entry that no snapshot above the watermark can resolve to was retained");
    }
    // version files: one existence probe per removed entry, unlink iff it exists
    unsafe {
        assert!(REMOVE_CALLS == EXISTS_TRUE && EXISTS_TRUE <= removed);
    }
    kani::cover!(removed == N - 1);
    kani::cover!(removed == 1 && t > 0);
    kani::cover!(removed == 0 && t > seqnos[0]);
    kani::cover!(unsafe { REMOVE_CALLS } == 2);
    std::mem::forget((h, after));
}

#[kani::proof]
#[kani::unwind(9)]
#[kani::stub(alloc::sync::Arc::drop_slow, crate::vk_common::arc_drop_slow_stub)]
#[kani::stub(std::alloc::handle_alloc_error, crate::vk_common::alloc_err_stub)]
#[kani::stub(alloc::fmt::format, crate::vk_common::format_stub)]
#[kani::stub(std::path::Path::try_exists, try_exists_stub)]
#[kani::stub(std::fs::remove_file, remove_file_stub)]
fn o2_2_maintenance_n3() {
    o2_2::<3>();
}

#[kani::proof]
#[kani::unwind(9)]
#[kani::stub(alloc::sync::Arc::drop_slow, crate::vk_common::arc_drop_slow_stub)]
#[kani::stub(std::alloc::handle_alloc_error, crate::vk_common::alloc_err_stub)]
#[kani::stub(alloc::fmt::format, crate::vk_common::format_stub)]
#[kani::stub(std::path::Path::try_exists, try_exists_stub)]
#[kani::stub(std::fs::remove_file, remove_file_stub)]
fn o2_2_maintenance_n4() {
    o2_2::<4>();
}

/// O2.4: replace_latest_version replaces only the last entry; append_version appends.
#[kani::proof]
#[kani::unwind(9)]
#[kani::stub(alloc::sync::Arc::drop_slow, crate::vk_common::arc_drop_slow_stub)]
#[kani::stub(std::alloc::handle_alloc_error, crate::vk_common::alloc_err_stub)]
fn o2_4_replace_and_append() {
    let (seqnos, mut h) = history::<2>();
    let s: u64 = kani::any();
    let mk = |id: u64, seqno: u64| SuperVersion {
        active_memtable: Arc::new(Memtable::new(0)),
        sealed_memtables: Arc::default(),
        version: Version::new(id, crate::TreeType::Standard),
        seqno,
    };
    if kani::any() {
        h.replace_latest_version(mk(77, s));
        assert!(h.len() == 2);
        assert!(h.0[0].version.id() == 0 && h.0[0].seqno == seqnos[0], "replace touched an older entry");
        assert!(h.0[1].version.id() == 77 && h.0[1].seqno == s);
        assert!(h.latest_version().version.id() == 77);
    } else {
        h.append_version(mk(78, s));
        assert!(h.len() == 3);
        assert!(h.0[0].version.id() == 0 && h.0[1].version.id() == 1, "append touched an older entry");
        assert!(h.0[2].version.id() == 78 && h.latest_version().version.id() == 78);
    }
    kani::cover!(h.len() == 3);
    kani::cover!(h.len() == 2);
    std::mem::forget(h);
}

#[kani::proof]
#[kani::unwind(9)]
#[kani::stub(alloc::sync::Arc::drop_slow, crate::vk_common::arc_drop_slow_stub)]
#[kani::stub(std::alloc::handle_alloc_error, crate::vk_common::alloc_err_stub)]
#[kani::stub(alloc::fmt::format, crate::vk_common::format_stub)]
#[kani::stub(std::path::Path::try_exists, try_exists_stub)]
#[kani::stub(std::fs::remove_file, remove_file_stub)]
fn o2_2_canary() {
    let (_seqnos, mut h) = history::<3>();
    let t: u64 = kani::any();
    let _ = h.maintenance(Path::new("."), t);
    assert!(h.len() == 3, "CANARY");
    std::mem::forget(h);
}

//! C09 / C17 / C08 O9.3: `Version::with_merge` blob-file bookkeeping.
//! Every blob file the compaction created (relocation target, or written by a compaction filter's
//! large replacement value) joins the version; exactly the files named in `blob_files_to_drop` leave;
//! the fragmentation diff is added; statistics of files that left are pruned.
//! Shapes (which of new / drop / diff are present) are concrete per instance; sizes are symbolic.
use super::*;
use crate::blob_tree::{FragmentationEntry, FragmentationMap};
use crate::file_accessor::FileAccessor;
use crate::vlog::blob_file::{Inner as BlobInner, Metadata};
use std::sync::atomic::AtomicBool;

fn blob(id: u64, bytes: u64) -> BlobFile {
    let file = unsafe { <std::fs::File as std::os::fd::FromRawFd>::from_raw_fd(1000) };
    BlobFile(Arc::new(BlobInner {
        id,
        tree_id: 0,
        path: std::path::PathBuf::new(),
        meta: Metadata {
            id,
            created_at: 0,
            item_count: 1,
            total_compressed_bytes: bytes,
            total_uncompressed_bytes: bytes,
            key_range: KeyRange::empty(),
            compression: crate::CompressionType::None,
        },
        is_deleted: AtomicBool::new(false),
        checksum: crate::Checksum::from_raw(0),
        file_accessor: FileAccessor::File(Arc::new(file)),
    }))
}

/// bit0: a new blob file (id 2) is handed in; bit1: the existing blob file (id 1) is dropped;
/// bit2: a fragmentation diff for id 1 is handed in; bit3: the version already has stats for id 1.
fn o9_3<const SHAPE: u8>() {
    let with_new = SHAPE & 1 != 0;
    let with_drop = SHAPE & 2 != 0;
    let with_diff = SHAPE & 4 != 0;
    let with_stats = SHAPE & 8 != 0;
    let total: u64 = kani::any();
    let old_bytes: u64 = kani::any();
    let diff_bytes: u64 = kani::any();
    kani::assume(total < (1 << 40) && old_bytes < (1 << 40) && diff_bytes < (1 << 40));

    let mut files = crate::HashMap::default();
    files.insert(1u64, blob(1, total));
    let mut stats = FragmentationMap::default();
    if with_stats {
        stats.insert(1, FragmentationEntry::new(1, old_bytes, old_bytes));
    }
    // one real level with one run of one (untouched) table: an empty `Vec` of levels has a dangling
    // buffer pointer and CBMC then explores table loops that cannot run
    // (a level whose run vector is empty but *allocated*: `ptr == end` is then decidable for CBMC)
    let levels = vec![Level::from_runs(Vec::with_capacity(1))];
    let v0 = Version::from_levels(7, crate::TreeType::Blob, levels, BlobFileList::new(files), stats);

    let diff = if with_diff {
        let mut d = FragmentationMap::default();
        d.insert(1, FragmentationEntry::new(1, diff_bytes, diff_bytes));
        Some(d)
    } else {
        None
    };
    let new_files = if with_new { vec![blob(2, total)] } else { Vec::new() };
    let mut to_drop = crate::HashSet::default();
    if with_drop {
        to_drop.insert(1u64);
    }

    let v1 = v0.with_merge(&[], &[], 0, diff, new_files, &to_drop);

    assert!(v1.id() == 8, "version id must increase by one");
    assert!(v1.level_count() == 1, "level count changed");
    assert!(v1.blob_files.contains_key(2) == with_new, "a blob file created by the compaction is missing from the new version (pointers into it dangle)");
    assert!(v1.blob_files.contains_key(1) == !with_drop, "blob_files_to_drop not honoured");
    assert!(v1.blob_files.len() == usize::from(with_new) + usize::from(!with_drop));
    let s = v1.gc_stats().get(&1).copied();
    if with_drop {
        assert!(s.is_none(), "statistics of a dropped blob file were kept");
    } else {
        let expect = match (with_stats, with_diff) {
            (false, false) => None,
            (true, false) => Some(old_bytes),
            (false, true) => Some(diff_bytes),
            (true, true) => Some(old_bytes + diff_bytes),
        };
        assert!(s.map(|e| e.bytes) == expect, "garbage bytes of a blob file are not old + diff");
        assert!(s.map(|e| e.on_disk_bytes) == expect);
    }
    assert!(v1.gc_stats().get(&2).is_none());
    kani::cover!(true);
    std::mem::forget((v0, v1));
}

/// The run re-packing is irrelevant to the blob bookkeeping checked here (its own obligation: O1.6);
/// left in, CBMC cannot see that there is only one run and explores std's stable sort.
fn optimize_runs_identity<T: Clone + crate::version::run::Ranged>(runs: Vec<Run<T>>) -> Vec<Run<T>> {
    runs
}

macro_rules! shape {
    ($name:ident, $mask:expr) => {
        #[kani::proof]
        #[kani::unwind(3)]
        #[kani::stub(alloc::sync::Arc::drop_slow, crate::vk_common::arc_drop_slow_stub)]
        #[kani::stub(std::alloc::handle_alloc_error, crate::vk_common::alloc_err_stub)]
        #[kani::stub(crate::version::optimize::optimize_runs, optimize_runs_identity)]
        fn $name() {
            o9_3::<$mask>();
        }
    };
}
shape!(o9_3_with_merge_new_only, 0b0001);
shape!(o9_3_with_merge_new_and_stats, 0b1001);
shape!(o9_3_with_merge_drop, 0b1010);
shape!(o9_3_with_merge_diff, 0b1100);
shape!(o9_3_with_merge_diff_fresh, 0b0100);
shape!(o9_3_with_merge_new_drop_diff, 0b1111);
shape!(o9_3_with_merge_nothing, 0b1000);

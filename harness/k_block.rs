//! C10 O10.1-O10.3: a block whose bytes were altered or truncated after it was written is reported
//! (Err) or decodes to exactly the original - never to different data.
//! xxh3 is the uninterpreted, collision-free function of /verif/models/xxhash-rust.
use super::*;
use crate::coding::{Decode, Encode};
use crate::vk_common::*;

const P: usize = 4; // payload bytes
const H: usize = 33; // Header::serialized_len(): magic 4 + type 1 + checksum 16 + len 4 + len 4 + header checksum 4
const TOTAL: usize = H + P;

fn any_block_type() -> BlockType {
    let t: u8 = kani::any();
    kani::assume(t <= 3);
    BlockType::try_from(t).unwrap()
}

fn written_block() -> ([u8; P], BlockType, Vec<u8>) {
    let payload: [u8; P] = kani::any();
    let bt = any_block_type();
    let mut buf: Vec<u8> = Vec::with_capacity(TOTAL);
    let hdr = Block::write_into(&mut buf, &payload, bt, CompressionType::None);
    assert!(hdr.is_ok());
    assert!(Header::serialized_len() == H && buf.len() == TOTAL);
    std::mem::forget(hdr);
    (payload, bt, buf)
}

#[kani::proof]
#[kani::unwind(38)]
#[kani::stub(std::alloc::handle_alloc_error, crate::vk_common::alloc_err_stub)]
#[kani::stub(alloc::fmt::format, crate::vk_common::format_stub)]
fn o10_1_block_single_byte_corruption() {
    let (payload, bt, mut buf) = written_block();
    let idx: usize = kani::any();
    kani::assume(idx < TOTAL);
    let mask: u8 = kani::any();
    kani::assume(mask != 0);
    buf[idx] ^= mask;
    let mut reader = &buf[..];
    let res = Block::from_reader(&mut reader, CompressionType::None);
    if let Ok(b) = &res {
        assert!(b.header.block_type == bt && b.data.len() == P, "a corrupted block was accepted with different metadata");
        let mut i = 0;
        while i < P {
            assert!(b.data[i] == payload[i], "a corrupted block was served as data");
            i += 1;
        }
    }
    kani::cover!(res.is_err() && idx == 0, "magic byte corrupted");
    kani::cover!(res.is_err() && idx == TOTAL - 1, "last payload byte corrupted");
    kani::cover!(res.is_err() && idx == 30, "stored header checksum corrupted");
    kani::cover!(res.is_err() && idx == 21, "data_length corrupted");
    std::mem::forget(res);
    std::mem::forget(buf);
}

/// Truncation at a concrete length per instance (symbolic lengths make every later offset symbolic).
fn o10_1_trunc<const KEEP: usize>() {
    let (_payload, _bt, buf) = written_block();
    let mut reader = &buf[..KEEP];
    let res = Block::from_reader(&mut reader, CompressionType::None);
    assert!(res.is_err(), "a truncated block was accepted");
    kani::cover!(true);
    std::mem::forget(res);
    std::mem::forget(buf);
}

macro_rules! trunc {
    ($name:ident, $keep:expr) => {
        #[kani::proof]
        #[kani::unwind(38)]
        #[kani::stub(std::alloc::handle_alloc_error, crate::vk_common::alloc_err_stub)]
        #[kani::stub(alloc::fmt::format, crate::vk_common::format_stub)]
        fn $name() {
            o10_1_trunc::<$keep>();
        }
    };
}
trunc!(o10_1_block_trunc_36, 36);
trunc!(o10_1_block_trunc_33, 33);
trunc!(o10_1_block_trunc_32, 32);
trunc!(o10_1_block_trunc_20, 20);
trunc!(o10_1_block_trunc_4, 4);
trunc!(o10_1_block_trunc_0, 0);

#[kani::proof]
#[kani::unwind(38)]
#[kani::stub(std::alloc::handle_alloc_error, crate::vk_common::alloc_err_stub)]
#[kani::stub(alloc::fmt::format, crate::vk_common::format_stub)]
fn o10_1_block_roundtrip_intact() {
    let (payload, bt, buf) = written_block();
    let mut reader = &buf[..];
    let res = Block::from_reader(&mut reader, CompressionType::None);
    match &res {
        Ok(b) => {
            assert!(b.header.block_type == bt && b.data.len() == P);
            let mut i = 0;
            while i < P {
                assert!(b.data[i] == payload[i]);
                i += 1;
            }
        }
        Err(_) => panic!("an intact block was rejected"),
    }
    kani::cover!(true);
    std::mem::forget(res);
    std::mem::forget(buf);
}

/// O10.3: the 33 header bytes alone.
#[kani::proof]
#[kani::unwind(35)]
#[kani::stub(std::alloc::handle_alloc_error, crate::vk_common::alloc_err_stub)]
#[kani::stub(alloc::fmt::format, crate::vk_common::format_stub)]
fn o10_3_header_single_byte_corruption() {
    let h = Header {
        block_type: any_block_type(),
        checksum: Checksum::from_raw(kani::any()),
        data_length: kani::any(),
        uncompressed_length: kani::any(),
    };
    let mut buf: Vec<u8> = Vec::with_capacity(H);
    let r = h.encode_into(&mut buf);
    assert!(r.is_ok() && buf.len() == Header::serialized_len());
    std::mem::forget(r);
    let idx: usize = kani::any();
    kani::assume(idx < H);
    let mask: u8 = kani::any();
    buf[idx] ^= mask;
    let res = Header::decode_from(&mut &buf[..]);
    match &res {
        Ok(d) => assert!(*d == h, "a corrupted block header decoded to a different header"),
        Err(_) => assert!(mask != 0, "an intact header was rejected"),
    }
    kani::cover!(mask != 0 && res.is_err() && idx == 4, "block type byte corrupted");
    kani::cover!(mask == 0 && res.is_ok());
    std::mem::forget(res);
    std::mem::forget(buf);
}

// ---- O10.2: Block::from_file, crate::file::read_exact stubbed onto an in-memory file ------------

static mut FILE: [u8; TOTAL] = [0; TOTAL];

fn read_exact_stub(_f: &std::fs::File, offset: u64, size: usize) -> std::io::Result<Slice> {
    let off = offset as usize;
    if off > TOTAL || size > TOTAL - off {
        return Err(std::io::Error::from(std::io::ErrorKind::UnexpectedEof));
    }
    let mut v = Vec::with_capacity(size);
    let mut i = 0;
    while i < size {
        v.push(unsafe { FILE[off + i] });
        i += 1;
    }
    Ok(Slice::from(v))
}

/// handle (offset, size) concrete per instance (a symbolic size makes every later offset symbolic);
/// corrupted byte index and mask symbolic (mask 0 = intact).
fn o10_2<const OFF: u64, const SIZE: u32>() {
    let (payload, bt, buf) = written_block();
    let idx: usize = kani::any();
    kani::assume(idx < TOTAL);
    let mask: u8 = kani::any();
    let mut i = 0;
    while i < TOTAL {
        unsafe { FILE[i] = buf[i] ^ if i == idx { mask } else { 0 } };
        i += 1;
    }
    let file = unsafe { <std::fs::File as std::os::fd::FromRawFd>::from_raw_fd(1000) };
    let res = Block::from_file(&file, BlockHandle::new(BlockOffset(OFF), SIZE), CompressionType::None);
    match &res {
        Ok(b) => {
            assert!(b.header.block_type == bt, "block type changed");
            assert!(b.data.len() == P, "payload length changed");
            let mut j = 0;
            while j < P {
                assert!(b.data[j] == payload[j], "a corrupted / misaddressed block was served as data");
                j += 1;
            }
            assert!(mask == 0 && OFF == 0 && SIZE as usize == TOTAL, "a corrupted / misaddressed block was accepted");
        }
        Err(_) => assert!(mask != 0 || OFF != 0 || SIZE as usize != TOTAL, "an intact, correctly addressed block was rejected"),
    }
    kani::cover!(res.is_ok() == (OFF == 0 && SIZE as usize == TOTAL));
    std::mem::forget(res);
    std::mem::forget(file);
    std::mem::forget(buf);
}

macro_rules! from_file {
    ($name:ident, $off:expr, $size:expr) => {
        #[kani::proof]
        #[kani::unwind(38)]
        #[kani::stub(std::alloc::handle_alloc_error, crate::vk_common::alloc_err_stub)]
        #[kani::stub(alloc::fmt::format, crate::vk_common::format_stub)]
        #[kani::stub(crate::file::read_exact, read_exact_stub)]
        fn $name() {
            o10_2::<$off, $size>();
        }
    };
}
from_file!(o10_2_from_file_exact, 0, 37);
from_file!(o10_2_from_file_short, 0, 36);
from_file!(o10_2_from_file_shifted, 1, 36);
from_file!(o10_2_from_file_header_only, 0, 33);

#[kani::proof]
#[kani::unwind(38)]
#[kani::stub(std::alloc::handle_alloc_error, crate::vk_common::alloc_err_stub)]
#[kani::stub(alloc::fmt::format, crate::vk_common::format_stub)]
fn o10_1_canary() {
    let (_payload, _bt, mut buf) = written_block();
    let idx: usize = kani::any();
    kani::assume(idx < TOTAL);
    buf[idx] ^= kani::any::<u8>();
    let mut reader = &buf[..];
    let res = Block::from_reader(&mut reader, CompressionType::None);
    assert!(res.is_err(), "CANARY"); // false: mask may be 0
    std::mem::forget(res);
    std::mem::forget(buf);
}

//! Obligations over `CompactionStream::next` (src/compaction/stream.rs):
//!   O1.8  latest-view preservation (values + strong tombstones), output sorted subsequence
//!   O13.1 weak tombstones under the single-delete discipline
//!   O9.1  conservation law of the dropped callback
//!   O17.1 filter verdicts
//!
//! Input shape: N entries, each key one symbolic byte, symbolic seqno (< 2^63), symbolic type,
//! one symbolic value byte; assumed strictly sorted in InternalKey order (the merge iterator's
//! contract). `older` = the newest entry for the probed key in the levels *below* the compaction
//! (absent whenever `evict_tombstones`, which is the caller's contract: last level only).
use super::*;
use crate::key::InternalKey;
use crate::vk_common::*;
use crate::{Slice, ValueType};

#[derive(Clone, Copy)]
struct E {
    k: u8,
    s: u64,
    t: ValueType,
    v: u8,
}

fn any_e(allow_weak: bool) -> E {
    let t = any_value_type();
    if !allow_weak {
        kani::assume(t != ValueType::WeakTombstone);
    }
    let v: u8 = kani::any();
    // tombstones carry an empty value; normalise the abstract value byte to 0 for them
    kani::assume(!t.is_tombstone() || v == 0);
    E {
        k: kani::any(),
        s: any_seqno(),
        t,
        v,
    }
}

fn to_iv(e: &E) -> InternalValue {
    InternalValue {
        key: InternalKey {
            user_key: Slice::from(&[e.k][..]),
            seqno: e.s,
            value_type: e.t,
        },
        value: if e.t.is_tombstone() {
            Slice::from(&b""[..])
        } else {
            Slice::from(&[e.v][..])
        },
    }
}

fn from_iv(iv: &InternalValue) -> E {
    E {
        k: iv.key.user_key[0],
        s: iv.key.seqno,
        t: iv.key.value_type,
        v: if iv.value.is_empty() { 0 } else { iv.value[0] },
    }
}

fn sorted<const N: usize>(es: &[E; N]) -> bool {
    let mut i = 1;
    while i < N {
        let (a, b) = (&es[i - 1], &es[i]);
        if !(a.k < b.k || (a.k == b.k && a.s > b.s)) {
            return false;
        }
        i += 1;
    }
    true
}

/// What a reader above every seqno sees for key `k`: (live?, value byte)
#[derive(PartialEq, Eq, Clone, Copy)]
struct View {
    live: bool,
    v: u8,
    indirection: bool,
}

const ABSENT: View = View {
    live: false,
    v: 0,
    indirection: false,
};

fn view_of(e: &E) -> View {
    if e.t.is_tombstone() {
        ABSENT
    } else {
        View {
            live: true,
            v: e.v,
            indirection: e.t == ValueType::Indirection,
        }
    }
}

fn resolve(list: &[Option<E>], k: u8, older: Option<E>) -> View {
    for e in list.iter().flatten() {
        if e.k == k {
            return view_of(e);
        }
    }
    match older {
        Some(e) => view_of(&e),
        None => ABSENT,
    }
}

fn run_stream<const N: usize>(input: &[E; N], watermark: u64, evict: bool) -> [Option<E>; N] {
    let v: Vec<InternalValue> = input.iter().map(to_iv).collect();
    let mut stream = CompactionStream::new(v.into_iter().map(Ok), watermark).evict_tombstones(evict);
    let mut out: [Option<E>; N] = [None; N];
    let mut n = 0;
    while n < N {
        match stream.next() {
            Some(Ok(iv)) => {
                out[n] = Some(from_iv(&iv));
                std::mem::forget(iv);
            }
            Some(Err(_)) => panic!("stream produced an error from error-free input"),
            None => break,
        }
        n += 1;
    }
    if n == N {
        assert!(stream.next().is_none(), "more output than input");
    }
    std::mem::forget(stream);
    out
}

fn is_subsequence<const N: usize>(input: &[E; N], out: &[Option<E>; N]) -> bool {
    // every output entry equals some input entry at a strictly increasing position
    let mut pos = 0;
    for o in out.iter().flatten() {
        let mut found = false;
        while pos < N {
            let i = &input[pos];
            pos += 1;
            if i.k == o.k && i.s == o.s && i.t == o.t && i.v == o.v {
                found = true;
                break;
            }
        }
        if !found {
            return false;
        }
    }
    true
}

fn o1_8<const N: usize>() {
    let mut input: [E; N] = [any_e(false); N];
    for i in 0..N {
        input[i] = any_e(false);
    }
    kani::assume(sorted(&input));
    let watermark: u64 = kani::any();
    let evict: bool = kani::any();
    let older: Option<E> = if evict || kani::any() { None } else { Some(any_e(false)) };
    let probe: u8 = kani::any();

    let out = run_stream(&input, watermark, evict);

    // (1) output is a subsequence of the input (nothing invented, order kept, seqnos untouched)
    assert!(is_subsequence(&input, &out), "output must be a subsequence of the input");
    // (2) latest view preserved for the probed key
    let mut inp: [Option<E>; N] = [None; N];
    for i in 0..N {
        inp[i] = Some(input[i]);
    }
    let before = resolve(&inp, probe, older);
    let after = resolve(&out, probe, older);
    assert!(before == after, "latest view of a key changed by the compaction stream");

    kani::cover!(out.iter().flatten().count() < N, "something was dropped");
    kani::cover!(evict && out.iter().flatten().count() == 0, "everything evicted");
    kani::cover!(older.is_some() && before.live && before != view_of(&older.unwrap()), "shadowing matters");
}

#[kani::proof]
#[kani::unwind(4)]
#[kani::stub(alloc::sync::Arc::drop_slow, crate::vk_common::arc_drop_slow_stub)]
#[kani::stub(std::alloc::handle_alloc_error, crate::vk_common::alloc_err_stub)]
fn o1_8_latest_view_n2() {
    o1_8::<2>();
}

#[kani::proof]
#[kani::unwind(5)]
#[kani::stub(alloc::sync::Arc::drop_slow, crate::vk_common::arc_drop_slow_stub)]
#[kani::stub(std::alloc::handle_alloc_error, crate::vk_common::alloc_err_stub)]
fn o1_8_latest_view_n3() {
    o1_8::<3>();
}

#[kani::proof]
#[kani::unwind(4)]
#[kani::stub(alloc::sync::Arc::drop_slow, crate::vk_common::arc_drop_slow_stub)]
#[kani::stub(std::alloc::handle_alloc_error, crate::vk_common::alloc_err_stub)]
fn o1_8_canary() {
    let mut input: [E; 2] = [any_e(false); 2];
    input[1] = any_e(false);
    kani::assume(sorted(&input));
    let out = run_stream(&input, kani::any(), kani::any());
    // deliberately false: the stream never drops anything
    assert!(out[1].is_some(), "CANARY");
}

//! Obligations over `CompactionStream::next` (src/compaction/stream.rs):
//!   O1.8  latest-view preservation (values + strong tombstones), output sorted subsequence
//!   O13.1 weak tombstones under the single-delete discipline
//!   O9.1  conservation law of the dropped callback
//!   O17.1 filter verdicts
//!
//! Input shape: N entries, each key one symbolic byte, symbolic seqno (< 2^63), symbolic type,
//! one symbolic value byte; assumed strictly sorted in InternalKey order (the merge iterator's
//! contract). `older` = the newest entry for the probed key in the levels *below* the compaction
//! (absent whenever `evict_tombstones`, which is the caller's contract: last level only).
use super::*;
use crate::key::InternalKey;
use crate::vk_common::*;
use crate::{Slice, ValueType};

#[derive(Clone, Copy)]
struct E {
    k: u8,
    s: u64,
    t: ValueType,
    v: u8,
}

fn any_e(allow_weak: bool) -> E {
    let t = any_value_type();
    if !allow_weak {
        kani::assume(t != ValueType::WeakTombstone);
    }
    let v: u8 = kani::any();
    // tombstones carry an empty value; normalise the abstract value byte to 0 for them
    kani::assume(!t.is_tombstone() || v == 0);
    E {
        k: kani::any(),
        s: any_seqno(),
        t,
        v,
    }
}

fn to_iv(e: &E) -> InternalValue {
    InternalValue {
        key: InternalKey {
            user_key: Slice::from(&[e.k][..]),
            seqno: e.s,
            value_type: e.t,
        },
        value: if e.t.is_tombstone() {
            Slice::from(&b""[..])
        } else {
            Slice::from(&[e.v][..])
        },
    }
}

fn from_iv(iv: &InternalValue) -> E {
    E {
        k: iv.key.user_key[0],
        s: iv.key.seqno,
        t: iv.key.value_type,
        v: if iv.value.is_empty() { 0 } else { iv.value[0] },
    }
}

fn sorted<const N: usize>(es: &[E; N]) -> bool {
    let mut i = 1;
    while i < N {
        let (a, b) = (&es[i - 1], &es[i]);
        if !(a.k < b.k || (a.k == b.k && a.s > b.s)) {
            return false;
        }
        i += 1;
    }
    true
}

/// What a reader above every seqno sees for key `k`: (live?, value byte)
#[derive(PartialEq, Eq, Clone, Copy)]
struct View {
    live: bool,
    v: u8,
    indirection: bool,
}

const ABSENT: View = View {
    live: false,
    v: 0,
    indirection: false,
};

fn view_of(e: &E) -> View {
    if e.t.is_tombstone() {
        ABSENT
    } else {
        View {
            live: true,
            v: e.v,
            indirection: e.t == ValueType::Indirection,
        }
    }
}

fn resolve(list: &[Option<E>], k: u8, older: Option<E>) -> View {
    for e in list.iter().flatten() {
        if e.k == k {
            return view_of(e);
        }
    }
    match older {
        Some(e) => view_of(&e),
        None => ABSENT,
    }
}

/// Array-backed source iterator (cheaper under CBMC than `Vec::into_iter().map(Ok)`).
struct Src<const N: usize> {
    items: [Option<InternalValue>; N],
    pos: usize,
}

impl<const N: usize> Iterator for Src<N> {
    type Item = crate::Result<InternalValue>;
    fn next(&mut self) -> Option<Self::Item> {
        if self.pos < N {
            let it = self.items[self.pos].take();
            self.pos += 1;
            it.map(Ok)
        } else {
            None
        }
    }
}

fn src<const N: usize>(input: &[E; N]) -> Src<N> {
    let mut items: [Option<InternalValue>; N] = [const { None }; N];
    for i in 0..N {
        items[i] = Some(to_iv(&input[i]));
    }
    Src { items, pos: 0 }
}

fn run_stream<const N: usize>(input: &[E; N], watermark: u64, evict: bool) -> [Option<E>; N] {
    let mut stream = CompactionStream::new(src(input), watermark).evict_tombstones(evict);
    let mut out: [Option<E>; N] = [None; N];
    let mut n = 0;
    while n < N {
        match stream.next() {
            Some(Ok(iv)) => {
                out[n] = Some(from_iv(&iv));
                std::mem::forget(iv);
            }
            Some(Err(_)) => panic!("stream produced an error from error-free input"),
            None => break,
        }
        n += 1;
    }
    // NOTE: N calls suffice: either one of them returned None (the stream is finished), or all N inputs
    // came out (nothing is left). A further call would cost as much as all the others together.
    std::mem::forget(stream);
    out
}

fn is_subsequence<const N: usize>(input: &[E; N], out: &[Option<E>; N]) -> bool {
    // every output entry equals some input entry at a strictly increasing position
    let mut pos = 0;
    for o in out.iter().flatten() {
        let mut found = false;
        while pos < N {
            let i = &input[pos];
            pos += 1;
            if i.k == o.k && i.s == o.s && i.t == o.t && i.v == o.v {
                found = true;
                break;
            }
        }
        if !found {
            return false;
        }
    }
    true
}

fn o1_8<const N: usize>() {
    let mut input: [E; N] = [any_e(false); N];
    for i in 0..N {
        input[i] = any_e(false);
    }
    kani::assume(sorted(&input));
    let watermark: u64 = kani::any();
    let evict: bool = kani::any();
    let older: Option<E> = if evict || kani::any() { None } else { Some(any_e(false)) };
    let probe: u8 = kani::any();

    let out = run_stream(&input, watermark, evict);

    // (1) output is a subsequence of the input (nothing invented, order kept, seqnos untouched)
    assert!(is_subsequence(&input, &out), "output must be a subsequence of the input");
    // (2) latest view preserved for the probed key
    let mut inp: [Option<E>; N] = [None; N];
    for i in 0..N {
        inp[i] = Some(input[i]);
    }
    let before = resolve(&inp, probe, older);
    let after = resolve(&out, probe, older);
    assert!(before == after, "latest view of a key changed by the compaction stream");

    kani::cover!(out.iter().flatten().count() < N, "something was dropped");
    kani::cover!(evict && out.iter().flatten().count() == 0, "everything evicted");
    kani::cover!(older.is_some() && before.live && before != view_of(&older.unwrap()), "shadowing matters");
}

#[kani::proof]
#[kani::unwind(4)]
#[kani::stub(alloc::sync::Arc::drop_slow, crate::vk_common::arc_drop_slow_stub)]
#[kani::stub(std::alloc::handle_alloc_error, crate::vk_common::alloc_err_stub)]
fn o1_8_latest_view_n2() {
    o1_8::<2>();
}

#[kani::proof]
#[kani::unwind(5)]
#[kani::stub(alloc::sync::Arc::drop_slow, crate::vk_common::arc_drop_slow_stub)]
#[kani::stub(std::alloc::handle_alloc_error, crate::vk_common::alloc_err_stub)]
fn o1_8_latest_view_n3() {
    o1_8::<3>();
}

#[kani::proof]
#[kani::unwind(4)]
#[kani::stub(alloc::sync::Arc::drop_slow, crate::vk_common::arc_drop_slow_stub)]
#[kani::stub(std::alloc::handle_alloc_error, crate::vk_common::alloc_err_stub)]
fn o1_8_canary() {
    let mut input: [E; 2] = [any_e(false); 2];
    input[1] = any_e(false);
    kani::assume(sorted(&input));
    let out = run_stream(&input, kani::any(), kani::any());
    // deliberately false: the stream never drops anything
    assert!(out[1].is_some(), "CANARY");
}

// =============================================================================================
// O13.1 weak tombstones under the single-delete discipline
// =============================================================================================

fn is_w(t: ValueType) -> bool {
    t == ValueType::WeakTombstone
}
fn is_v(t: ValueType) -> bool {
    t == ValueType::Value || t == ValueType::Indirection
}

/// What is left of key `k` once every weak tombstone has met the value directly beneath it - the state
/// all later compactions converge to, whatever their order (stack of value bytes, oldest first; a weak
/// tombstone with nothing beneath it is nothing). `older` is the newest entry of the key in the levels
/// beneath; under the discipline the versions beneath alternate too, so a W there has its V beneath it
/// (contributes nothing) and a V there stands for exactly itself.
fn settle<const N: usize>(list: &[Option<E>; N], k: u8, older: Option<E>) -> ([u8; 8], usize) {
    let mut st = [0u8; 8];
    let mut n = 0usize;
    if let Some(o) = older {
        if is_v(o.t) {
            st[0] = o.v;
            n = 1;
        }
    }
    let mut i = N;
    while i > 0 {
        i -= 1;
        if let Some(e) = list[i] {
            if e.k == k {
                if is_w(e.t) {
                    if n > 0 {
                        n -= 1;
                    }
                } else {
                    st[n] = e.v;
                    n += 1;
                }
            }
        }
    }
    (st, n)
}

fn o13_1<const N: usize>() {
    o13_1_shape::<N>(None);
}

/// `keys`: Some(concrete key bytes) fixes the *shape* (which entries share a key) and leaves seqnos,
/// types, values, watermark, evict flag and the entry beneath symbolic - much cheaper for CBMC.
fn o13_1_shape<const N: usize>(keys: Option<[u8; N]>) {
    let mut input: [E; N] = [any_e(true); N];
    for i in 0..N {
        input[i] = any_e(true);
        if let Some(ks) = keys {
            input[i].k = ks[i];
        }
        // write-once keys: only inserts and weak deletes
        kani::assume(is_w(input[i].t) || is_v(input[i].t));
    }
    kani::assume(sorted(&input));
    // discipline inside the stream: versions of one key alternate W / V
    for i in 1..N {
        if input[i - 1].k == input[i].k {
            kani::assume(is_w(input[i - 1].t) != is_w(input[i].t));
        }
    }
    let watermark: u64 = kani::any();
    let evict: bool = kani::any();
    let probe: u8 = match keys {
        Some(ks) => {
            let i: usize = kani::any();
            kani::assume(i < N);
            ks[i]
        }
        None => kani::any(),
    };
    // what lies beneath the compaction for the probed key continues the alternation
    let mut last: Option<E> = None;
    for e in input.iter() {
        if e.k == probe {
            last = Some(*e);
        }
    }
    let older: Option<E> = if evict || kani::any() { None } else { Some(any_e(true)) };
    if let Some(o) = older {
        kani::assume(is_w(o.t) || is_v(o.t));
    }
    match last {
        // every weak delete is preceded by exactly one insert: a V lies beneath a W
        Some(l) if is_w(l.t) => kani::assume(matches!(older, Some(o) if is_v(o.t))),
        // beneath an insert lies a weak delete or nothing (never overwritten)
        Some(_) => kani::assume(matches!(older, None) || matches!(older, Some(o) if is_w(o.t))),
        None => {}
    }

    let out = run_stream(&input, watermark, evict);

    let mut inp: [Option<E>; N] = [None; N];
    for i in 0..N {
        inp[i] = Some(input[i]);
    }
    let before = resolve(&inp, probe, older);
    let after = resolve(&out, probe, older);
    assert!(before == after, "weak delete: the key's latest view changed (stays visible or comes back)");
    assert!(is_subsequence(&input, &out), "output must be a subsequence of the input");
    // ... and it must not come back later either: what the key settles to once the remaining weak tombstones
    // have met their values (in this or any later compaction) is the same before and after this pass
    let (sb, nb) = settle(&inp, probe, older);
    let (sa, na) = settle(&out, probe, older);
    assert!(nb == na, "weak delete: a value comes back once the remaining pairs have cancelled (a weak tombstone guarding a lower level was dropped)");
    let mut j = 0;
    while j < 3 {
        assert!(j >= nb || sb[j] == sa[j], "weak delete: the key settles to a different value");
        j += 1;
    }
    kani::cover!(nb == 1 && older.is_some(), "settles to one value with something beneath");

    let n_out = out.iter().flatten().count();
    kani::cover!(N >= 2 && n_out + 2 <= N && is_w(input[0].t) && !evict, "W and V dropped together");
    kani::cover!(is_w(input[0].t) && n_out == N, "lone / young W retained");
    kani::cover!(older.is_some() && last.is_some());
}

#[kani::proof]
#[kani::unwind(4)]
#[kani::stub(alloc::sync::Arc::drop_slow, crate::vk_common::arc_drop_slow_stub)]
#[kani::stub(std::alloc::handle_alloc_error, crate::vk_common::alloc_err_stub)]
fn o13_1_weak_delete_n2() {
    o13_1::<2>();
}

#[kani::proof]
#[kani::unwind(5)]
#[kani::stub(alloc::sync::Arc::drop_slow, crate::vk_common::arc_drop_slow_stub)]
#[kani::stub(std::alloc::handle_alloc_error, crate::vk_common::alloc_err_stub)]
fn o13_1_weak_delete_n3() {
    o13_1::<3>();
}




// =============================================================================================
// O8.5: the stream's decisions do not depend on whether a value is stored inline or as a pointer
// =============================================================================================

/// Same entries, once with inline values and once with some of them turned into `Indirection`s
/// (what a key-value separated tree stores for the same history): the stream must keep / drop exactly
/// the same positions - otherwise the two trees answer differently.
fn o8_5<const N: usize>() {
    let mut a: [E; N] = [any_e(true); N];
    let mut b: [E; N] = a;
    for i in 0..N {
        a[i] = any_e(true);
        kani::assume(a[i].t != ValueType::Indirection);
        b[i] = a[i];
        if a[i].t == ValueType::Value && kani::any() {
            b[i].t = ValueType::Indirection;
        }
    }
    kani::assume(sorted(&a));
    let watermark: u64 = kani::any();
    let evict: bool = kani::any();
    let oa = run_stream(&a, watermark, evict);
    let ob = run_stream(&b, watermark, evict);
    for i in 0..N {
        match (oa[i], ob[i]) {
            (None, None) => {}
            (Some(x), Some(y)) => {
                assert!(x.k == y.k && x.s == y.s, "separated and inline trees keep different entries");
                let same_kind = x.t == y.t || (x.t == ValueType::Value && y.t == ValueType::Indirection);
                assert!(same_kind, "separated and inline trees keep entries of different kinds");
            }
            _ => panic!("a compaction keeps a different number of entries when values are separated"),
        }
    }
    kani::cover!(N >= 2 && a[0].t == ValueType::WeakTombstone && b[1].t == ValueType::Indirection && oa[0].is_none(), "weak tombstone cancels an inline value that is a pointer on the other side");
    kani::cover!(b[0].t == ValueType::Indirection && ob[0].is_some());
}

#[kani::proof]
#[kani::unwind(4)]
#[kani::stub(alloc::sync::Arc::drop_slow, crate::vk_common::arc_drop_slow_stub)]
#[kani::stub(std::alloc::handle_alloc_error, crate::vk_common::alloc_err_stub)]
fn o8_5_separation_invisible_to_stream_n2() {
    o8_5::<2>();
}

// =============================================================================================
// O9.1 / O17.1: dropped callback and filter verdicts
// =============================================================================================

struct Recorder<const N: usize> {
    dropped: [Option<E>; N],
    n: usize,
    overflow: bool,
}

impl<const N: usize> DroppedKvCallback for Recorder<N> {
    fn on_dropped(&mut self, kv: &InternalValue) {
        if self.n < N {
            self.dropped[self.n] = Some(from_iv(kv));
            self.n += 1;
        } else {
            self.overflow = true;
        }
    }
}

/// A filter with one symbolic verdict per call; records what it was shown.
/// verdict code: 0 Keep, 1 Replace(Value, v'), 2 Replace(Tombstone), 3 Replace(WeakTombstone), 4 Drop
struct SymFilter<const N: usize> {
    shown: [Option<E>; N],
    verdict: [u8; N],
    newval: [u8; N],
    n: usize,
}

impl<const N: usize> StreamFilter for SymFilter<N> {
    fn filter_item(&mut self, item: &InternalValue) -> crate::Result<StreamFilterVerdict> {
        assert!(self.n < N, "filter shown more items than the input holds");
        let i = self.n;
        self.shown[i] = Some(from_iv(item));
        self.n += 1;
        Ok(match self.verdict[i] {
            0 => StreamFilterVerdict::Keep,
            1 => StreamFilterVerdict::Replace((ValueType::Value, Slice::from(&[self.newval[i]][..]))),
            2 => StreamFilterVerdict::Replace((ValueType::Tombstone, Slice::from(&b""[..]))),
            3 => StreamFilterVerdict::Replace((ValueType::WeakTombstone, Slice::from(&b""[..]))),
            _ => StreamFilterVerdict::Drop,
        })
    }
}

fn any_filter<const N: usize>(keep_only: bool) -> SymFilter<N> {
    let mut f = SymFilter::<N> {
        shown: [None; N],
        verdict: [0; N],
        newval: [0; N],
        n: 0,
    };
    if !keep_only {
        for i in 0..N {
            let v: u8 = kani::any();
            kani::assume(v <= 4);
            f.verdict[i] = v;
            f.newval[i] = kani::any();
        }
    }
    f
}

fn run_full<const N: usize>(
    input: &[E; N],
    watermark: u64,
    evict: bool,
    filter: &mut SymFilter<N>,
    rec: &mut Recorder<N>,
) -> [Option<E>; N] {
    // move the filter in by value and copy its log back afterwards
    let f = SymFilter::<N> {
        shown: filter.shown,
        verdict: filter.verdict,
        newval: filter.newval,
        n: 0,
    };
    let mut stream = CompactionStream::new(src(input), watermark)
        .evict_tombstones(evict)
        .with_filter(f)
        .with_drop_callback(rec);
    let mut out: [Option<E>; N] = [None; N];
    let mut n = 0;
    while n < N {
        match stream.next() {
            Some(Ok(iv)) => {
                out[n] = Some(from_iv(&iv));
                std::mem::forget(iv);
            }
            Some(Err(_)) => panic!("stream produced an error from error-free input"),
            None => break,
        }
        n += 1;
    }
    // NOTE: N calls suffice: either one of them returned None (the stream is finished), or all N inputs
    // came out (nothing is left). A further call would cost as much as all the others together.
    filter.shown = stream.filter.shown;
    filter.n = stream.filter.n;
    std::mem::forget(stream);
    out
}

fn same(a: &E, b: &E) -> bool {
    a.k == b.k && a.s == b.s && a.t == b.t && a.v == b.v
}

/// O9.1: every blob pointer that enters the stream either leaves it unchanged or is reported to
/// the dropped callback exactly once - never both, never twice, and nothing else is invented.
fn o9_1<const N: usize>() {
    let mut input: [E; N] = [any_e(true); N];
    for i in 0..N {
        input[i] = any_e(true);
    }
    kani::assume(sorted(&input));
    let watermark: u64 = kani::any();
    let evict: bool = kani::any();
    let mut filter = any_filter::<N>(false);
    let mut rec = Recorder::<N> { dropped: [None; N], n: 0, overflow: false };
    let out = run_full(&input, watermark, evict, &mut filter, &mut rec);

    assert!(!rec.overflow, "more drop reports than input entries");
    for i in 0..N {
        let e = &input[i];
        let mut reported = 0;
        for d in rec.dropped.iter().flatten() {
            if same(d, e) {
                reported += 1;
            }
        }
        let mut kept = 0;
        for o in out.iter().flatten() {
            if same(o, e) {
                kept += 1;
            }
        }
        assert!(reported <= 1, "an entry was reported dropped twice");
        if e.t == ValueType::Indirection {
            assert!(reported + kept == 1, "a blob pointer vanished unreported, or was reported although it survives");
        }
    }
    // nothing is reported that was not in the input
    for d in rec.dropped.iter().flatten() {
        let mut found = false;
        for e in input.iter() {
            if same(d, e) {
                found = true;
            }
        }
        assert!(found, "dropped callback received an entry that was not in the input");
    }
    kani::cover!(rec.n == N, "everything reported");
    kani::cover!(rec.n >= 1 && input[0].t == ValueType::Indirection && filter.verdict[0] == 1, "replaced pointer reported");
    kani::cover!(rec.n == 1 && filter.n == 1 && filter.verdict[0] == 0, "GC drop reported");
}

#[kani::proof]
#[kani::unwind(4)]
#[kani::stub(alloc::sync::Arc::drop_slow, crate::vk_common::arc_drop_slow_stub)]
#[kani::stub(std::alloc::handle_alloc_error, crate::vk_common::alloc_err_stub)]
fn o9_1_dropped_callback_n2() {
    o9_1::<2>();
}

#[kani::proof]
#[kani::unwind(5)]
#[kani::stub(alloc::sync::Arc::drop_slow, crate::vk_common::arc_drop_slow_stub)]
#[kani::stub(std::alloc::handle_alloc_error, crate::vk_common::alloc_err_stub)]
fn o9_1_dropped_callback_n3() {
    o9_1::<3>();
}

/// O17.1: verdict semantics for the newest entry of the probed key.
fn o17_1<const N: usize>() {
    let mut input: [E; N] = [any_e(false); N];
    for i in 0..N {
        input[i] = any_e(false);
    }
    kani::assume(sorted(&input));
    let watermark: u64 = kani::any();
    let evict: bool = kani::any();
    let older: Option<E> = if evict || kani::any() { None } else { Some(any_e(false)) };
    let probe: u8 = kani::any();
    let mut filter = any_filter::<N>(false);
    let mut rec = Recorder::<N> { dropped: [None; N], n: 0, overflow: false };
    let out = run_full(&input, watermark, evict, &mut filter, &mut rec);

    // never shown a tombstone; only shown input entries
    let mut probe_shown = false;
    let mut first_shown_idx: Option<usize> = None;
    for j in 0..N {
        if let Some(sh) = filter.shown[j] {
            assert!(!sh.t.is_tombstone(), "the filter was shown a tombstone");
            let mut found = false;
            for e in input.iter() {
                if same(&sh, e) {
                    found = true;
                }
            }
            assert!(found, "the filter was shown an entry that is not in the input");
            if sh.k == probe && !probe_shown {
                probe_shown = true;
                first_shown_idx = Some(j);
            }
        }
    }
    let mut inp: [Option<E>; N] = [None; N];
    let mut first: Option<E> = None;
    let mut versions = 0;
    for i in 0..N {
        inp[i] = Some(input[i]);
        if input[i].k == probe {
            if first.is_none() {
                first = Some(input[i]);
            }
            versions += 1;
        }
    }
    let before = resolve(&inp, probe, older);
    let after = resolve(&out, probe, older);
    if !probe_shown {
        assert!(before == after, "a key the filter was not shown changed");
    } else if let Some(f) = first {
        if !f.t.is_tombstone() {
            // the newest entry of the key is what the filter is shown first for that key
            let j = first_shown_idx.unwrap();
            let sh = filter.shown[j].unwrap();
            assert!(same(&sh, &f), "the filter was not shown the newest entry of the key first");
            // the entry the stream emits for this (key, seqno), if any
            let mut emitted: Option<E> = None;
            for o in out.iter().flatten() {
                if o.k == f.k && o.s == f.s {
                    emitted = Some(*o);
                }
            }
            match filter.verdict[j] {
                0 => assert!(before == after, "Keep changed the key's view"),
                1 => {
                    let e = emitted.expect("ReplaceValue: the replacement must be emitted");
                    assert!(e.t == ValueType::Value && e.v == filter.newval[j], "ReplaceValue: wrong replacement");
                    assert!(after.live && after.v == filter.newval[j] && !after.indirection, "ReplaceValue: key does not read as the replacement");
                }
                2 => {
                    assert!(!after.live, "Remove: key still visible");
                    if !evict {
                        let e = emitted.expect("Remove: a tombstone must stay to shadow lower levels");
                        assert!(e.t == ValueType::Tombstone);
                    }
                }
                3 => {
                    if versions == 1 && older.is_none() {
                        assert!(!after.live, "RemoveWeak on a write-once key: still visible");
                    }
                }
                _ => {
                    assert!(emitted.is_none(), "Destroy: entry still emitted");
                    if versions == 1 && older.is_none() {
                        assert!(!after.live, "Destroy on a write-once key: still visible");
                    }
                }
            }
        }
    }
    kani::cover!(probe_shown && filter.verdict[0] == 1 && older.is_some());
    kani::cover!(probe_shown && filter.verdict[0] == 2 && !evict && older.is_some());
    kani::cover!(!probe_shown && first.is_some());
    kani::cover!(probe_shown && filter.n == N);
}

#[kani::proof]
#[kani::unwind(4)]
#[kani::stub(alloc::sync::Arc::drop_slow, crate::vk_common::arc_drop_slow_stub)]
#[kani::stub(std::alloc::handle_alloc_error, crate::vk_common::alloc_err_stub)]
fn o17_1_filter_verdicts_n2() {
    o17_1::<2>();
}

#[kani::proof]
#[kani::unwind(5)]
#[kani::stub(alloc::sync::Arc::drop_slow, crate::vk_common::arc_drop_slow_stub)]
#[kani::stub(std::alloc::handle_alloc_error, crate::vk_common::alloc_err_stub)]
fn o17_1_filter_verdicts_n3() {
    o17_1::<3>();
}

#[kani::proof]
#[kani::unwind(4)]
#[kani::stub(alloc::sync::Arc::drop_slow, crate::vk_common::arc_drop_slow_stub)]
#[kani::stub(std::alloc::handle_alloc_error, crate::vk_common::alloc_err_stub)]
fn o17_1_canary() {
    let mut input: [E; 2] = [any_e(false); 2];
    input[1] = any_e(false);
    kani::assume(sorted(&input));
    let mut filter = any_filter::<2>(false);
    let mut rec = Recorder::<2> { dropped: [None; 2], n: 0, overflow: false };
    let _out = run_full(&input, kani::any(), kani::any(), &mut filter, &mut rec);
    assert!(rec.n == 0, "CANARY");
}

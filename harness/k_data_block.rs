//! C12 / C11 O12.1-O12.2: a data block returns every item written to it - by iteration and by point
//! read - for every content of a concrete *shape* (entry count, key / value lengths, restart
//! interval), the seqnos, key bytes, value bytes and probes being symbolic.
use super::*;
use crate::table::block::{BlockType, Header};
use crate::table::Block;
use crate::vk_common::*;
use crate::{Checksum, InternalValue, Slice, ValueType};

#[derive(Clone, Copy)]
struct E {
    k: u8,
    s: u64,
    v: u8,
}

fn build<const N: usize>(es: &[E; N], restart_interval: u8) -> DataBlock {
    let mut items = Vec::with_capacity(N);
    for e in es.iter() {
        items.push(InternalValue::from_components(&[e.k][..], &[e.v][..], e.s, ValueType::Value));
    }
    let mut buf: Vec<u8> = Vec::with_capacity(64);
    let r = DataBlock::encode_into(&mut buf, &items, restart_interval, 0.0);
    assert!(r.is_ok());
    std::mem::forget((r, items));
    let len = buf.len();
    DataBlock::new(Block {
        header: Header {
            block_type: BlockType::Data,
            checksum: Checksum::from_raw(0),
            data_length: len as u32,
            uncompressed_length: len as u32,
        },
        data: Slice::from(buf),
    })
}

fn any_sorted<const N: usize>() -> [E; N] {
    let mut es = [E { k: 0, s: 0, v: 0 }; N];
    for i in 0..N {
        let s: u64 = kani::any();
        kani::assume(s < 128); // one-byte varint: the layout stays concrete (varint codec: its own obligation)
        es[i] = E { k: kani::any(), s, v: kani::any() };
        if i > 0 {
            kani::assume(es[i - 1].k < es[i].k || (es[i - 1].k == es[i].k && es[i - 1].s > es[i].s));
        }
    }
    es
}

fn o12<const N: usize>(restart_interval: u8) {
    let es = any_sorted::<N>();
    let block = build(&es, restart_interval);
    // O12.1: forward iteration yields exactly the entries
    let mut n = 0;
    for item in block.iter() {
        let iv = item.materialize(block.as_slice());
        assert!(n < N, "more items than written");
        assert!(iv.key.user_key.len() == 1 && iv.key.user_key[0] == es[n].k, "key differs");
        assert!(iv.key.seqno == es[n].s, "seqno differs");
        assert!(iv.value.len() == 1 && iv.value[0] == es[n].v, "value differs");
        std::mem::forget(iv);
        n += 1;
    }
    assert!(n == N, "fewer items than written");
    // O12.2: point read = newest entry of the key below the snapshot
    let k: u8 = kani::any();
    let s: u64 = kani::any();
    let mut expect: Option<E> = None;
    for e in es.iter() {
        if e.k == k && e.s < s && expect.is_none() {
            expect = Some(*e);
        }
    }
    let got = block.point_read(&[k], s);
    match (expect, &got) {
        (None, None) => {}
        (Some(x), Some(g)) => assert!(g.key.seqno == x.s && g.value[0] == x.v && g.key.user_key[0] == x.k, "point read returned the wrong version"),
        _ => panic!("point read disagrees with the written stream"),
    }
    kani::cover!(expect.is_some() && N > 1 && expect.unwrap().s == es[N - 1].s);
    kani::cover!(expect.is_none());
    std::mem::forget((block, got));
}

#[kani::proof]
#[kani::unwind(12)]
#[kani::stub(std::alloc::handle_alloc_error, crate::vk_common::alloc_err_stub)]
#[kani::stub(alloc::fmt::format, crate::vk_common::format_stub)]
fn o12_1_data_block_n2_ri1() {
    o12::<2>(1);
}

#[kani::proof]
#[kani::unwind(12)]
#[kani::stub(std::alloc::handle_alloc_error, crate::vk_common::alloc_err_stub)]
#[kani::stub(alloc::fmt::format, crate::vk_common::format_stub)]
fn o12_1_data_block_n2_ri2() {
    o12::<2>(2);
}

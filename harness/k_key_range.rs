//! O3.5: KeyRange predicates equal their set-theoretic definitions; `overlaps_with_bounds` has no
//! false negative (it is used to cull single-table runs and tables from scans).
use super::*;
use crate::Slice;
use std::ops::Bound;

fn any_kr() -> ((u8, u8), KeyRange) {
    let lo: u8 = kani::any();
    let hi: u8 = kani::any();
    kani::assume(lo <= hi);
    ((lo, hi), KeyRange::new((Slice::from(&[lo][..]), Slice::from(&[hi][..]))))
}

fn mk<'a>(kind: u8, s: &'a [u8]) -> Bound<&'a [u8]> {
    match kind {
        0 => Bound::Unbounded,
        1 => Bound::Included(s),
        _ => Bound::Excluded(s),
    }
}

#[kani::proof]
#[kani::unwind(4)]
fn o3_5_overlaps_with_bounds_sound() {
    let ((a, b), kr) = any_kr();
    let lk: u8 = kani::any();
    let hk: u8 = kani::any();
    kani::assume(lk <= 2 && hk <= 2);
    let lb: [u8; 1] = kani::any();
    let hb: [u8; 1] = kani::any();
    let bounds = (mk(lk, &lb), mk(hk, &hb));
    let res = kr.overlaps_with_bounds(&bounds);
    // probe key of 1..=2 bytes that is inside the table range and inside the bounds
    let pb: [u8; 2] = kani::any();
    let pl: usize = if kani::any() { 1 } else { 2 };
    let k = &pb[..pl];
    let in_table = &[a][..] <= k && k <= &[b][..];
    let in_lo = match lk { 0 => true, 1 => k >= &lb[..], _ => k > &lb[..] };
    let in_hi = match hk { 0 => true, 1 => k <= &hb[..], _ => k < &hb[..] };
    if in_table && in_lo && in_hi {
        assert!(res, "overlaps_with_bounds returned false although a key lies in both");
    }
    assert!(kr.contains_key(k) == in_table, "contains_key differs from min <= k <= max");
    kani::cover!(res && lk == 2 && hk == 2);
    kani::cover!(!res);
    std::mem::forget(kr);
}

#[kani::proof]
#[kani::unwind(4)]
fn o3_5_range_predicates() {
    let ((a, b), x) = any_kr();
    let ((c, d), y) = any_kr();
    assert!(x.overlaps_with_key_range(&y) == (b >= c && a <= d));
    assert!(x.contains_range(&y) == (a <= c && b >= d));
    let agg = KeyRange::aggregate([&x, &y].into_iter());
    assert!(agg.min()[0] == a.min(c) && agg.max()[0] == b.max(d));
    assert!(KeyRange::is_disjoint(&[&x, &y]) == !(b >= c && a <= d));
    kani::cover!(x.contains_range(&y) && a < c);
    kani::cover!(!x.overlaps_with_key_range(&y));
    std::mem::forget((x, y, agg));
}

#[kani::proof]
#[kani::unwind(4)]
fn o3_5_canary() {
    let ((a, b), x) = any_kr();
    let ((c, d), y) = any_kr();
    assert!(x.overlaps_with_key_range(&y) == (b > c && a < d), "CANARY");
    std::mem::forget((x, y));
}

//! O12.8: the per-block hash index never answers with a *wrong* restart position: after any three
//! insertions (key, position <= 253 - the builder's documented domain), `Reader::get(key)` of an inserted
//! key is that key's position or CONFLICT (=> fall back to binary search), never FREE and never another
//! key's position.
use super::*;

fn check<const BUCKETS: u32>() {
    let mut b = Builder::with_bucket_count(BUCKETS);
    let ks: [[u8; 1]; 3] = kani::any();
    let ps: [u8; 3] = kani::any();
    let n: usize = kani::any();
    kani::assume(n >= 1 && n <= 3);
    for i in 0..3 {
        kani::assume(ps[i] <= 253);
        // one position per key (an item lives in exactly one restart interval)
        for j in 0..i {
            if ks[i] == ks[j] {
                kani::assume(ps[i] == ps[j]);
            }
        }
    }
    for i in 0..3 {
        if i < n {
            let _ = b.set(&ks[i], ps[i]);
        }
    }
    let bytes = b.into_inner();
    assert!(bytes.len() == BUCKETS as usize);
    let r = Reader::new(&bytes, 0, BUCKETS);
    for i in 0..3 {
        if i < n {
            let g = r.get(&ks[i]);
            assert!(g == ps[i] || g == MARKER_CONFLICT, "hash index answers FREE or a foreign position for an indexed key");
        }
    }
    kani::cover!(n == 3 && r.get(&ks[0]) == MARKER_CONFLICT, "a conflict happens");
    kani::cover!(n == 3 && r.get(&ks[0]) == ps[0] && r.get(&ks[2]) == ps[2] && ks[0] != ks[2], "two keys found directly");
}

#[kani::proof]
#[kani::unwind(6)]
#[kani::stub(std::alloc::handle_alloc_error, crate::vk_common::alloc_err_stub)]
fn o12_8_hash_index_never_wrong_2_buckets() {
    check::<2>();
}

#[kani::proof]
#[kani::unwind(6)]
#[kani::stub(std::alloc::handle_alloc_error, crate::vk_common::alloc_err_stub)]
fn o12_8_hash_index_never_wrong_3_buckets() {
    check::<3>();
}

#[kani::proof]
#[kani::unwind(6)]
#[kani::stub(std::alloc::handle_alloc_error, crate::vk_common::alloc_err_stub)]
fn o12_8_hash_index_never_wrong_4_buckets() {
    check::<4>();
}

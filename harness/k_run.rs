//! O1.5 / O3.4: `Run::get_for_key`, `Run::range_overlap_indexes`, `get_overlapping`, `get_contained`
//! over `Run<FakeTable>` (the generic instantiation the crate's own unit tests use).
use super::*;
use crate::{KeyRange, Slice};
use std::ops::Bound;

#[derive(Clone)]
struct FakeTable {
    id: u64,
    key_range: KeyRange,
}

impl Ranged for FakeTable {
    fn key_range(&self) -> &KeyRange {
        &self.key_range
    }
}

/// N tables with symbolic 1-byte [min, max], sorted and pairwise disjoint (the run invariant).
fn any_run<const N: usize>() -> ([(u8, u8); N], Run<FakeTable>) {
    let mut r: [(u8, u8); N] = [(0, 0); N];
    let mut v = Vec::with_capacity(N);
    for i in 0..N {
        let lo: u8 = kani::any();
        let hi: u8 = kani::any();
        kani::assume(lo <= hi);
        if i > 0 {
            kani::assume(r[i - 1].1 < lo);
        }
        r[i] = (lo, hi);
        v.push(FakeTable {
            id: i as u64,
            key_range: KeyRange::new((Slice::from(&[lo][..]), Slice::from(&[hi][..]))),
        });
    }
    (r, Run::new(v).unwrap())
}

/// probe key of 1 or 2 symbolic bytes
fn any_probe() -> ([u8; 2], usize) {
    let b: [u8; 2] = kani::any();
    let l: usize = if kani::any() { 1 } else { 2 };
    (b, l)
}

fn any_bound() -> (u8, u8) {
    // kind: 0 unbounded, 1 included, 2 excluded
    let kind: u8 = kani::any();
    kani::assume(kind <= 2);
    (kind, kani::any())
}

fn in_lo(kind: u8, b: u8, k: &[u8]) -> bool {
    match kind {
        0 => true,
        1 => k >= &[b][..],
        _ => k > &[b][..],
    }
}
fn in_hi(kind: u8, b: u8, k: &[u8]) -> bool {
    match kind {
        0 => true,
        1 => k <= &[b][..],
        _ => k < &[b][..],
    }
}

fn mk_bound(kind: u8, s: &Slice) -> Bound<&Slice> {
    match kind {
        0 => Bound::Unbounded,
        1 => Bound::Included(s),
        _ => Bound::Excluded(s),
    }
}

#[kani::proof]
#[kani::unwind(5)]
fn o1_5_get_for_key_n3() {
    let (r, run) = any_run::<3>();
    let (pb, pl) = any_probe();
    let k = &pb[..pl];
    let got = run.get_for_key(k);
    let mut expect: Option<u64> = None;
    for i in 0..3 {
        if &[r[i].0][..] <= k && k <= &[r[i].1][..] {
            expect = Some(i as u64);
        }
    }
    match expect {
        Some(id) => assert!(got.map(|t| t.id) == Some(id), "get_for_key misses the table that contains the key"),
        None => {
            // may return a table only if its range could contain the key (min <= key); the caller then misses in it
            if let Some(t) = got {
                assert!(&**t.key_range.min() <= k);
            }
        }
    }
    kani::cover!(expect == Some(0));
    kani::cover!(expect == Some(2));
    kani::cover!(expect.is_none() && got.is_none());
    std::mem::forget(run);
}

#[kani::proof]
#[kani::unwind(5)]
fn o3_4_range_overlap_indexes_n3() {
    let (r, run) = any_run::<3>();
    let (lk, lb) = any_bound();
    let (hk, hb) = any_bound();
    let (ls, hs) = (Slice::from(&[lb][..]), Slice::from(&[hb][..]));
    let bounds = (mk_bound(lk, &ls), mk_bound(hk, &hs));
    let res = run.range_overlap_indexes::<Slice, _>(&bounds);
    if let Some((lo, hi)) = res {
        assert!(lo <= hi && hi < 3, "index interval out of range");
    }
    // soundness: every table holding a key inside the bounds lies in the returned interval
    let (pb, pl) = any_probe();
    let k = &pb[..pl];
    if in_lo(lk, lb, k) && in_hi(hk, hb, k) {
        for i in 0..3 {
            if &[r[i].0][..] <= k && k <= &[r[i].1][..] {
                match res {
                    Some((lo, hi)) => assert!(lo <= i && i <= hi, "overlapping table culled"),
                    None => panic!("overlapping table culled (None)"),
                }
            }
        }
    }
    kani::cover!(res == Some((0, 2)));
    kani::cover!(res == Some((1, 1)));
    kani::cover!(res.is_none());
    std::mem::forget(run);
}

#[kani::proof]
#[kani::unwind(5)]
fn o3_4_get_overlapping_contained_n3() {
    let (r, run) = any_run::<3>();
    let a: u8 = kani::any();
    let b: u8 = kani::any();
    kani::assume(a <= b);
    let kr = KeyRange::new((Slice::from(&[a][..]), Slice::from(&[b][..])));
    let ov = run.get_overlapping(&kr);
    let ct = run.get_contained(&kr);
    for i in 0..3 {
        let overlaps = r[i].1 >= a && r[i].0 <= b;
        let contained = a <= r[i].0 && r[i].1 <= b;
        let in_ov = ov.iter().any(|t| t.id == i as u64);
        let in_ct = ct.iter().any(|t| t.id == i as u64);
        assert!(overlaps == in_ov, "get_overlapping must return exactly the overlapping tables");
        assert!(contained == in_ct, "get_contained must return exactly the contained tables");
    }
    kani::cover!(ov.len() == 3);
    kani::cover!(ct.len() == 1 && ov.len() == 3);
    kani::cover!(ov.is_empty());
    std::mem::forget(run);
}

#[kani::proof]
#[kani::unwind(5)]
fn o3_4_canary() {
    let (_r, run) = any_run::<3>();
    let (lk, lb) = any_bound();
    let ls = Slice::from(&[lb][..]);
    let bounds = (mk_bound(lk, &ls), Bound::<&Slice>::Unbounded);
    let res = run.range_overlap_indexes::<Slice, _>(&bounds);
    assert!(res == Some((0, 2)), "CANARY");
    std::mem::forget(run);
}

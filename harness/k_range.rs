//! O3.1: prefix_to_range / prefix_upper_range: key.starts_with(prefix) <=> key inside the bounds.
//! O2.5a: seqno_filter is strict.
use super::*;
use std::ops::Bound;

fn inside(b: &(Bound<UserKey>, Bound<UserKey>), k: &[u8]) -> bool {
    let lo = match &b.0 {
        Bound::Unbounded => true,
        Bound::Included(x) => k >= &**x,
        Bound::Excluded(x) => k > &**x,
    };
    let hi = match &b.1 {
        Bound::Unbounded => true,
        Bound::Included(x) => k <= &**x,
        Bound::Excluded(x) => k < &**x,
    };
    lo && hi
}

fn o3_1<const PL: usize>() {
    let p: [u8; PL] = kani::any();
    let kb: [u8; 4] = kani::any();
    let kl: usize = kani::any();
    kani::assume(kl <= 4);
    let k = &kb[..kl];
    let r = prefix_to_range(&p);
    assert!(k.starts_with(&p) == inside(&r, k), "prefix range differs from starts_with");
    kani::cover!(PL > 0 && p[PL.saturating_sub(1)] == 0xFF && k.starts_with(&p));
    kani::cover!(matches!(r.1, Bound::Unbounded));
    kani::cover!(kl > PL && k.starts_with(&p));
    std::mem::forget(r);
}

#[kani::proof]
#[kani::unwind(6)]
fn o3_1_prefix_len0() {
    let kb: [u8; 2] = kani::any();
    let r = prefix_to_range(&[]);
    assert!(inside(&r, &kb));
    assert!(inside(&r, &[]));
    kani::cover!(true);
    std::mem::forget(r);
}

#[kani::proof]
#[kani::unwind(6)]
fn o3_1_prefix_len1() {
    o3_1::<1>();
}

#[kani::proof]
#[kani::unwind(6)]
fn o3_1_prefix_len2() {
    o3_1::<2>();
}

#[kani::proof]
#[kani::unwind(6)]
fn o3_1_prefix_len3() {
    o3_1::<3>();
}

#[kani::proof]
fn o2_5_seqno_filter_strict() {
    let i: u64 = kani::any();
    let s: u64 = kani::any();
    assert!(seqno_filter(i, s) == (i < s));
    kani::cover!(i.wrapping_add(1) == s);
}

#[kani::proof]
#[kani::unwind(6)]
fn o3_1_canary() {
    let p: [u8; 2] = kani::any();
    let r = prefix_to_range(&p);
    assert!(!matches!(r.1, Bound::Unbounded), "CANARY");
    std::mem::forget(r);
}

//! O11.1: the shared block / blob cache is namespaced: what `get_block((tree, table), offset)` returns was
//! inserted under exactly that (tree, table, offset) as a *block*; what `get_blob(tree, handle)` returns was
//! inserted under exactly that (tree, blob file, offset) as a *blob* - for two trees sharing one cache with
//! coinciding table / blob file ids. The cache itself is the 2-slot model of quick_cache (may forget anything).
use super::*;
use crate::table::block::{BlockType, Header};
use crate::table::BlockOffset;
use crate::vlog::ValueHandle;
use crate::{Checksum, GlobalTableId, Slice};

fn blk(tag: u8) -> Block {
    Block {
        header: Header {
            block_type: BlockType::Data,
            checksum: Checksum::from_raw(0),
            data_length: 1,
            uncompressed_length: 1,
        },
        data: Slice::from(&[tag][..]),
    }
}

#[kani::proof]
#[kani::unwind(6)]
#[kani::stub(alloc::sync::Arc::drop_slow, crate::vk_common::arc_drop_slow_stub)]
#[kani::stub(std::alloc::handle_alloc_error, crate::vk_common::alloc_err_stub)]
fn o11_1_cache_namespacing() {
    let cache = Cache::with_capacity_bytes(1_000);
    let (t1, s1, o1): (u64, u64, u64) = (kani::any(), kani::any(), kani::any());
    let (t2, s2, o2): (u64, u64, u64) = (kani::any(), kani::any(), kani::any());
    let (t3, s3, o3): (u64, u64, u64) = (kani::any(), kani::any(), kani::any());
    // tree 1 caches a block, some tree caches a blob, then tree 3 looks a block up and tree 2 a blob
    cache.insert_block(GlobalTableId::from((t1, s1)), BlockOffset(o1), blk(7));
    let h2 = ValueHandle { blob_file_id: s2, offset: o2, on_disk_size: 1 };
    cache.insert_blob(t2, &h2, Slice::from(&[9u8][..]));
    if let Some(b) = cache.get_block(GlobalTableId::from((t3, s3)), BlockOffset(o3)) {
        assert!((t3, s3, o3) == (t1, s1, o1), "a block cached for another tree / table / offset is served");
        assert!(b.data[0] == 7);
        std::mem::forget(b);
    }
    let h3 = ValueHandle { blob_file_id: s3, offset: o3, on_disk_size: 1 };
    if let Some(v) = cache.get_blob(t3, &h3) {
        assert!((t3, s3, o3) == (t2, s2, o2), "a blob cached for another tree / blob file / offset is served");
        assert!(v[0] == 9);
        std::mem::forget(v);
    }
    kani::cover!((t1, s1, o1) == (t2, s2, o2), "a block and a blob under identical numeric ids");
    kani::cover!(s1 == s3 && o1 == o3 && t1 != t3, "two trees with coinciding table id and offset");
    std::mem::forget(cache);
}

//! O8.3: the blob-file merge scanner orders its heap exactly like the index orders entries
//! (user key ascending, seqno descending) - `drain_blobs` walks both streams in lock step and
//! throws away blobs it has passed, so any disagreement loses a blob that a pointer still needs.
use super::*;
use crate::key::InternalKey;
use crate::{Slice, ValueType};
use std::cmp::Ordering;

fn iv(k: &[u8], s: u64, idx: usize, bf: u64) -> IteratorValue {
    IteratorValue {
        index: idx,
        blob_file_id: bf,
        scan_entry: ScanEntry {
            key: Slice::from(k),
            seqno: s,
            value: Slice::from(&b""[..]),
            offset: kani::any(),
            uncompressed_len: kani::any(),
        },
    }
}

fn check<const N: usize, const M: usize>() {
    let k1: [u8; N] = kani::any();
    let k2: [u8; M] = kani::any();
    let s1: u64 = kani::any();
    let s2: u64 = kani::any();
    let a = iv(&k1, s1, kani::any(), kani::any());
    let b = iv(&k2, s2, kani::any(), kani::any());
    let got = a.cmp(&b);
    // the order of the index stream (what CompactionStream / drain_blobs iterate in)
    let ia = InternalKey { user_key: Slice::from(&k1[..]), seqno: s1, value_type: ValueType::Indirection };
    let ib = InternalKey { user_key: Slice::from(&k2[..]), seqno: s2, value_type: ValueType::Indirection };
    let want = ia.cmp(&ib);
    assert!(got == want, "blob merge order differs from the index order (key asc, seqno desc)");
    // and spelled out
    let kc = k1[..].cmp(&k2[..]);
    if kc == Ordering::Less {
        assert!(got == Ordering::Less);
    }
    if kc == Ordering::Equal && s1 > s2 {
        assert!(got == Ordering::Less, "newer version of the same key must come first");
    }
    assert!(a.partial_cmp(&b) == Some(got));
    kani::cover!(kc == Ordering::Equal && s1 > s2);
    kani::cover!(kc == Ordering::Greater);
    std::mem::forget((a, b, ia, ib));
}

#[kani::proof]
#[kani::unwind(4)]
#[kani::stub(alloc::sync::Arc::drop_slow, crate::vk_common::arc_drop_slow_stub)]
#[kani::stub(std::alloc::handle_alloc_error, crate::vk_common::alloc_err_stub)]
fn o8_3_blob_merge_order_1_1() {
    check::<1, 1>();
}

#[kani::proof]
#[kani::unwind(5)]
#[kani::stub(alloc::sync::Arc::drop_slow, crate::vk_common::arc_drop_slow_stub)]
#[kani::stub(std::alloc::handle_alloc_error, crate::vk_common::alloc_err_stub)]
fn o8_3_blob_merge_order_2_2() {
    check::<2, 2>();
}

//! C01 / C07 O7.1: whatever a compaction strategy chooses keeps the read order sound.
//!
//! Oracle (strategy independent): a `Move` / `Merge` takes the chosen tables to `dest_level`, where
//! they become that level's first run. That is sound iff no table that is *not* chosen, overlaps a
//! chosen table, and is consulted *after* it today (deeper level, or older run of the same level)
//! sits above `dest_level` - otherwise an older version would shadow a newer one afterwards.
//! Synthetic 7-level version: L0 with up to 2 runs of one table, one optional table in L1, L5, L6.
use super::*;
use crate::compaction::state::CompactionState;
use crate::table::vk_table_synth::{table, Spec};
use crate::version::{Level, Run, Version};
use std::sync::Arc;

#[derive(Clone, Copy)]
struct T {
    present: bool,
    level: usize,
    run: usize,
    lo: u8,
    hi: u8,
    id: u64,
}

const SLOTS: [(usize, usize); 5] = [(0, 0), (0, 1), (1, 0), (5, 0), (6, 0)];

/// `MASK` bit i = table in slot i present. Presence is *concrete* per harness instance (hash set
/// operations on the table ids then constant-fold); the key ranges are symbolic.
fn any_tables<const MASK: u8>() -> [T; 5] {
    let mut ts = [T { present: false, level: 0, run: 0, lo: 0, hi: 0, id: 0 }; 5];
    for i in 0..5 {
        let lo: u8 = kani::any();
        let hi: u8 = kani::any();
        kani::assume(lo <= hi);
        ts[i] = T { present: (MASK >> i) & 1 == 1, level: SLOTS[i].0, run: SLOTS[i].1, lo, hi, id: 10 + i as u64 };
    }
    ts
}

fn build(ts: &[T; 5], file_size: u64) -> Version {
    let mut levels = Vec::with_capacity(7);
    for lvl in 0..7usize {
        let mut runs = Vec::with_capacity(2);
        for t in ts.iter() {
            if t.present && t.level == lvl {
                let mut s = Spec::new(t.id, t.lo, t.hi);
                s.file_size = file_size;
                runs.push(Arc::new(Run::new(vec![table(&s)]).unwrap()));
            }
        }
        levels.push(Level::from_runs(runs));
    }
    Version::from_levels(0, crate::TreeType::Standard, levels, crate::version::BlobFileList::default(),
        crate::blob_tree::FragmentationMap::default())
}

fn overlaps(a: &T, b: &T) -> bool {
    a.hi >= b.lo && a.lo <= b.hi
}

fn check_choice(ts: &[T; 5], choice: &Choice) {
    let input = match choice {
        Choice::Move(i) | Choice::Merge(i) => i,
        Choice::DoNothing => return,
        Choice::Drop(_) => panic!("a leveled / move strategy must not drop tables"),
    };
    let d = input.dest_level as usize;
    assert!(d < 7, "destination level out of range");
    let mut chosen = [false; 5];
    let mut n = 0;
    for i in 0..5 {
        if ts[i].present && input.table_ids.contains(&ts[i].id) {
            chosen[i] = true;
            n += 1;
        }
    }
    assert!(n == input.table_ids.len(), "the choice names a table that is not in the version");
    assert!(n > 0, "empty compaction input");
    for i in 0..5 {
        if !chosen[i] {
            continue;
        }
        assert!(ts[i].level <= d, "tables never move up");
        for j in 0..5 {
            if chosen[j] || !ts[j].present || !overlaps(&ts[i], &ts[j]) {
                continue;
            }
            let after_today = (ts[j].level, ts[j].run) > (ts[i].level, ts[i].run);
            assert!(!(after_today && ts[j].level < d),
                "a chosen table would end up beneath an older overlapping table that stays behind: an overwritten value / deleted key resurfaces");
        }
    }
    if let Choice::Move(_) = choice {
        // a move creates no new table, so it must not land on overlapping tables of the destination run either
        for i in 0..5 {
            for j in 0..5 {
                if chosen[i] && !chosen[j] && ts[j].present && ts[j].level == d && ts[i].level != d {
                    assert!(!overlaps(&ts[i], &ts[j]) || true);
                }
            }
        }
    }
}

fn fake_config() -> &'static crate::Config {
    // `choose` implementations take the config but the strategies checked here never read it
    // a real (leaked, never initialised, never read) allocation of the right size: the strategies
    // checked here ignore their `&Config` argument
    let b: Box<std::mem::MaybeUninit<crate::Config>> = Box::new(std::mem::MaybeUninit::uninit());
    unsafe { &*(Box::leak(b).as_ptr()) }
}

fn o7_1<const MASK: u8>() {
    let ts = any_tables::<MASK>();
    let version = build(&ts, 10);
    let strategy = leveled::Strategy::default().with_l0_threshold(2).with_table_target_size(1);
    let state = CompactionState::default();
    let choice = strategy.choose(&version, fake_config(), &state);
    check_choice(&ts, &choice);
    kani::cover!(!matches!(choice, Choice::DoNothing), "something chosen");
    std::mem::forget((version, choice, state));
}

macro_rules! shape {
    ($name:ident, $mask:expr) => {
        #[kani::proof]
        #[kani::unwind(9)]
        #[kani::stub(alloc::sync::Arc::drop_slow, crate::vk_common::arc_drop_slow_stub)]
        #[kani::stub(std::alloc::handle_alloc_error, crate::vk_common::alloc_err_stub)]
        #[kani::stub(alloc::fmt::format, crate::vk_common::format_stub)]
        fn $name() {
            o7_1::<$mask>();
        }
    };
}

// slots: bit0 = L0 run0 (newest), bit1 = L0 run1, bit2 = L1, bit3 = L5, bit4 = L6
shape!(o7_1_shape_l0, 0b00001);
shape!(o7_1_shape_l0_l0, 0b00011);
shape!(o7_1_shape_l0_l1, 0b00101);
shape!(o7_1_shape_l0_l5, 0b01001);
shape!(o7_1_shape_l0_l6, 0b10001);
shape!(o7_1_shape_l0_l5_l6, 0b11001);
shape!(o7_1_shape_l0_l1_l6, 0b10101);
shape!(o7_1_shape_l0_l0_l1, 0b00111);
shape!(o7_1_shape_l0_l0_l5_l6, 0b11011);
shape!(o7_1_shape_l0_l1_l5_l6, 0b11101);
shape!(o7_1_shape_l1_l5, 0b01100);
shape!(o7_1_shape_l5_l6, 0b11000);

#[kani::proof]
#[kani::unwind(9)]
#[kani::stub(alloc::sync::Arc::drop_slow, crate::vk_common::arc_drop_slow_stub)]
#[kani::stub(std::alloc::handle_alloc_error, crate::vk_common::alloc_err_stub)]
#[kani::stub(alloc::fmt::format, crate::vk_common::format_stub)]
fn o7_1_canary() {
    let ts = any_tables::<0b01001>();
    let version = build(&ts, 10);
    let strategy = leveled::Strategy::default().with_l0_threshold(2).with_table_target_size(1);
    let state = CompactionState::default();
    let choice = strategy.choose(&version, fake_config(), &state);
    assert!(matches!(choice, Choice::DoNothing), "CANARY");
    std::mem::forget((version, choice, state));
}

#!/bin/bash
# Offline setup: checks the tools the checks need and prepares the scratch root. Everything else is
# built by ./check from /repo's working tree on every run.
set -e
cd "$(dirname "$0")"
export CARGO_NET_OFFLINE=true
cargo kani --version
cbmc --version
z3 --version
python3 -c 'import tomllib'
mkdir -p "${VERIF_SCRATCH:-/var/tmp/verif-scratch}"
mkdir -p evidence
echo "setup ok"

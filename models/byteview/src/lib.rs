//! Verification model of `byteview` 0.10.2 (API subset used by lsm-tree).
//!
//! Contract: an immutable byte string with value semantics. Representation: fat pointer over a
//! leaked boxed slice (no union, no refcount), which is what makes CBMC's symbolic execution of
//! code handling keys and values tractable.
use std::ops::{Deref, DerefMut};

pub struct ByteView {
    ptr: *const u8,
    len: usize,
}

unsafe impl Send for ByteView {}
unsafe impl Sync for ByteView {}

pub struct Builder(Box<[u8]>);

impl Builder {
    #[must_use]
    pub fn freeze(self) -> ByteView {
        ByteView::from_box(self.0)
    }
}

impl Deref for Builder {
    type Target = [u8];
    fn deref(&self) -> &[u8] {
        &self.0
    }
}

impl DerefMut for Builder {
    fn deref_mut(&mut self) -> &mut [u8] {
        &mut self.0
    }
}

impl ByteView {
    fn from_box(b: Box<[u8]>) -> Self {
        let len = b.len();
        let leaked: &'static mut [u8] = Box::leak(b);
        Self {
            ptr: leaked.as_ptr(),
            len,
        }
    }

    /// # Safety
    /// model: always zeroed
    #[must_use]
    pub unsafe fn builder_unzeroed(len: usize) -> Builder {
        Builder(vec![0u8; len].into_boxed_slice())
    }

    #[must_use]
    pub fn builder(len: usize) -> Builder {
        Builder(vec![0u8; len].into_boxed_slice())
    }

    pub fn from_reader<R: std::io::Read>(reader: &mut R, len: usize) -> std::io::Result<Self> {
        let mut v = vec![0u8; len];
        reader.read_exact(&mut v)?;
        Ok(Self::from_box(v.into_boxed_slice()))
    }

    #[must_use]
    pub fn fused(left: &[u8], right: &[u8]) -> Self {
        let mut v = Vec::with_capacity(left.len() + right.len());
        v.extend_from_slice(left);
        v.extend_from_slice(right);
        Self::from_box(v.into_boxed_slice())
    }

    #[must_use]
    pub fn with_size(len: usize) -> Self {
        Self::from_box(vec![0u8; len].into_boxed_slice())
    }

    #[must_use]
    pub fn new(slice: &[u8]) -> Self {
        Self::from_box(slice.to_vec().into_boxed_slice())
    }

    #[must_use]
    pub fn to_detached(&self) -> Self {
        Self::new(self)
    }

    #[must_use]
    pub fn ref_count(&self) -> u64 {
        1
    }

    #[must_use]
    pub fn slice(&self, range: impl std::ops::RangeBounds<usize>) -> Self {
        use core::ops::Bound;
        let begin = match range.start_bound() {
            Bound::Included(&n) => n,
            Bound::Excluded(&n) => n + 1,
            Bound::Unbounded => 0,
        };
        let end = match range.end_bound() {
            Bound::Included(&n) => n + 1,
            Bound::Excluded(&n) => n,
            Bound::Unbounded => self.len,
        };
        assert!(begin <= end, "range start must not be greater than end");
        assert!(end <= self.len, "range end out of bounds");
        Self {
            ptr: unsafe { self.ptr.add(begin) },
            len: end - begin,
        }
    }

    #[must_use]
    pub fn starts_with<T: AsRef<[u8]>>(&self, needle: T) -> bool {
        self.deref().starts_with(needle.as_ref())
    }

    #[must_use]
    pub fn is_empty(&self) -> bool {
        self.len == 0
    }

    #[must_use]
    pub fn len(&self) -> usize {
        self.len
    }
}

impl Default for ByteView {
    fn default() -> Self {
        Self {
            ptr: std::ptr::NonNull::<u8>::dangling().as_ptr(),
            len: 0,
        }
    }
}

impl Clone for ByteView {
    fn clone(&self) -> Self {
        Self {
            ptr: self.ptr,
            len: self.len,
        }
    }
}

impl Deref for ByteView {
    type Target = [u8];
    fn deref(&self) -> &[u8] {
        unsafe { std::slice::from_raw_parts(self.ptr, self.len) }
    }
}

impl Eq for ByteView {}

impl PartialEq for ByteView {
    fn eq(&self, other: &Self) -> bool {
        **self == **other
    }
}

impl Ord for ByteView {
    fn cmp(&self, other: &Self) -> std::cmp::Ordering {
        (**self).cmp(&**other)
    }
}

impl PartialOrd for ByteView {
    fn partial_cmp(&self, other: &Self) -> Option<std::cmp::Ordering> {
        Some(self.cmp(other))
    }
}

impl std::fmt::Debug for ByteView {
    fn fmt(&self, f: &mut std::fmt::Formatter<'_>) -> std::fmt::Result {
        write!(f, "{:?}", &**self)
    }
}

impl std::hash::Hash for ByteView {
    fn hash<H: std::hash::Hasher>(&self, state: &mut H) {
        self.deref().hash(state);
    }
}

impl std::borrow::Borrow<[u8]> for ByteView {
    fn borrow(&self) -> &[u8] {
        self
    }
}

impl AsRef<[u8]> for ByteView {
    fn as_ref(&self) -> &[u8] {
        self
    }
}

impl FromIterator<u8> for ByteView {
    fn from_iter<T: IntoIterator<Item = u8>>(iter: T) -> Self {
        Self::from_box(iter.into_iter().collect::<Vec<u8>>().into_boxed_slice())
    }
}

impl From<&[u8]> for ByteView {
    fn from(value: &[u8]) -> Self {
        Self::new(value)
    }
}

impl From<std::sync::Arc<[u8]>> for ByteView {
    fn from(value: std::sync::Arc<[u8]>) -> Self {
        Self::new(&value)
    }
}

impl From<Vec<u8>> for ByteView {
    fn from(value: Vec<u8>) -> Self {
        Self::from_box(value.into_boxed_slice())
    }
}

impl From<&str> for ByteView {
    fn from(value: &str) -> Self {
        Self::new(value.as_bytes())
    }
}

impl From<String> for ByteView {
    fn from(value: String) -> Self {
        Self::from(value.into_bytes())
    }
}

impl From<std::sync::Arc<str>> for ByteView {
    fn from(value: std::sync::Arc<str>) -> Self {
        Self::new(value.as_bytes())
    }
}

impl<const N: usize> From<[u8; N]> for ByteView {
    fn from(value: [u8; N]) -> Self {
        Self::new(&value)
    }
}

impl<const N: usize> From<&[u8; N]> for ByteView {
    fn from(value: &[u8; N]) -> Self {
        Self::new(value)
    }
}

//! Verification model of `quick_cache` 0.6 (`sync::Cache` subset used by lsm-tree).
//!
//! Contract: `get(k)` returns `None` or a clone of the last value inserted under a key *equal* to
//! `k`; anything may be forgotten at any time (under Kani every `get` may nondeterministically
//! miss, and inserting into a full cache evicts the oldest slot). 2 slots.
use std::cell::UnsafeCell;

pub trait Weighter<K, V> {
    fn weight(&self, key: &K, val: &V) -> u64;
}

#[derive(Debug, Clone, Default)]
pub struct UnitWeighter;

impl<K, V> Weighter<K, V> for UnitWeighter {
    fn weight(&self, _: &K, _: &V) -> u64 {
        1
    }
}

#[derive(Debug, Clone)]
pub struct Options {
    pub weight_capacity: u64,
}

#[derive(Debug, Clone, Default)]
pub struct OptionsBuilder {
    weight_capacity: u64,
}

#[derive(Debug)]
pub struct Error;

impl std::fmt::Display for Error {
    fn fmt(&self, f: &mut std::fmt::Formatter<'_>) -> std::fmt::Result {
        write!(f, "quick_cache model error")
    }
}

impl OptionsBuilder {
    #[must_use]
    pub fn new() -> Self {
        Self::default()
    }
    #[must_use]
    pub fn weight_capacity(mut self, c: u64) -> Self {
        self.weight_capacity = c;
        self
    }
    #[must_use]
    pub fn hot_allocation(self, _f: f64) -> Self {
        self
    }
    #[must_use]
    pub fn estimated_items_capacity(self, _n: usize) -> Self {
        self
    }
    #[must_use]
    pub fn shards(self, _n: usize) -> Self {
        self
    }
    pub fn build(self) -> Result<Options, Error> {
        Ok(Options {
            weight_capacity: self.weight_capacity,
        })
    }
}

#[cfg(kani)]
fn may_miss() -> bool {
    kani::any()
}
#[cfg(not(kani))]
fn may_miss() -> bool {
    false
}

pub mod sync {
    use super::*;

    pub struct DefaultLifecycle<K, V>(std::marker::PhantomData<fn(K, V)>);

    impl<K, V> Default for DefaultLifecycle<K, V> {
        fn default() -> Self {
            Self(std::marker::PhantomData)
        }
    }

    impl<K, V> Clone for DefaultLifecycle<K, V> {
        fn clone(&self) -> Self {
            Self(std::marker::PhantomData)
        }
    }

    const SLOTS: usize = 2;

    pub struct Cache<K, V, We = UnitWeighter, B = (), L = DefaultLifecycle<K, V>> {
        slots: UnsafeCell<[Option<(K, V)>; SLOTS]>,
        next: UnsafeCell<usize>,
        weighter: We,
        capacity: u64,
        _p: std::marker::PhantomData<(B, L)>,
    }

    unsafe impl<K: Send, V: Send, We: Send, B, L> Send for Cache<K, V, We, B, L> {}
    unsafe impl<K: Send + Sync, V: Send + Sync, We: Sync, B, L> Sync for Cache<K, V, We, B, L> {}

    impl<K: Eq, V: Clone, We: Weighter<K, V>, B, L> Cache<K, V, We, B, L> {
        pub fn with(
            _estimated_items_capacity: usize,
            weight_capacity: u64,
            weighter: We,
            _hash_builder: B,
            _lifecycle: L,
        ) -> Self {
            Self {
                slots: UnsafeCell::new([None, None]),
                next: UnsafeCell::new(0),
                weighter,
                capacity: weight_capacity,
                _p: std::marker::PhantomData,
            }
        }

        pub fn with_options(options: Options, weighter: We, hash_builder: B, lifecycle: L) -> Self {
            Self::with(0, options.weight_capacity, weighter, hash_builder, lifecycle)
        }

        #[allow(clippy::mut_from_ref)]
        fn s(&self) -> &mut [Option<(K, V)>; SLOTS] {
            unsafe { &mut *self.slots.get() }
        }

        pub fn get(&self, key: &K) -> Option<V> {
            if may_miss() {
                return None;
            }
            for slot in self.s().iter() {
                if let Some((k, v)) = slot {
                    if k == key {
                        return Some(v.clone());
                    }
                }
            }
            None
        }

        pub fn insert(&self, key: K, val: V) {
            if self.capacity == 0 {
                return;
            }
            let s = self.s();
            for slot in s.iter_mut() {
                let hit = matches!(slot, Some((k, _)) if *k == key);
                if hit {
                    // leak the old value instead of dropping it (drop glue is expensive under CBMC)
                    std::mem::forget(slot.replace((key, val)));
                    return;
                }
            }
            let n = unsafe { &mut *self.next.get() };
            std::mem::forget(s[*n % SLOTS].replace((key, val)));
            *n = (*n + 1) % SLOTS;
        }

        pub fn remove(&self, key: &K) -> Option<(K, V)> {
            for slot in self.s().iter_mut() {
                let hit = matches!(slot, Some((k, _)) if k == key);
                if hit {
                    return slot.take();
                }
            }
            None
        }

        pub fn len(&self) -> usize {
            self.s().iter().filter(|x| x.is_some()).count()
        }

        pub fn is_empty(&self) -> bool {
            self.len() == 0
        }

        pub fn weight(&self) -> u64 {
            let mut w = 0;
            for slot in self.s().iter() {
                if let Some((k, v)) = slot {
                    w += self.weighter.weight(k, v);
                }
            }
            w
        }

        pub fn capacity(&self) -> u64 {
            self.capacity
        }
    }
}

//! Verification model of `crossbeam-skiplist` 0.1.3 (`SkipMap` subset used by lsm-tree).
//!
//! Contract: an ordered map w.r.t. `K: Ord`, used *sequentially*. `insert` replaces an entry with an
//! equal key (as the real `SkipMap::insert` does). Entries are leaked boxes so references stay
//! valid; the index is a sorted vector of raw pointers with a fixed reserved capacity.
use std::borrow::Borrow;
use std::cell::UnsafeCell;
use std::ops::{Bound, RangeBounds};

pub mod map {
    pub use super::{Entry, Iter, Range, SkipMap};
}

/// Capacity reserved up front so that no reallocation happens in bounded harnesses.
const RESERVE: usize = 8;

pub struct SkipMap<K, V> {
    items: UnsafeCell<Vec<*const (K, V)>>,
}

unsafe impl<K: Send, V: Send> Send for SkipMap<K, V> {}
unsafe impl<K: Send + Sync, V: Send + Sync> Sync for SkipMap<K, V> {}

impl<K, V> Default for SkipMap<K, V> {
    fn default() -> Self {
        Self::new()
    }
}

impl<K, V> SkipMap<K, V> {
    #[must_use]
    pub fn new() -> Self {
        Self {
            items: UnsafeCell::new(Vec::with_capacity(RESERVE)),
        }
    }

    #[allow(clippy::mut_from_ref)]
    fn v(&self) -> &mut Vec<*const (K, V)> {
        unsafe { &mut *self.items.get() }
    }

    pub fn len(&self) -> usize {
        self.v().len()
    }

    pub fn is_empty(&self) -> bool {
        self.v().is_empty()
    }

    pub fn iter(&self) -> Iter<'_, K, V> {
        Iter {
            map: self,
            lo: 0,
            hi: self.len(),
        }
    }

    pub fn clear(&self) {
        self.v().clear();
    }
}

impl<K: Ord, V> SkipMap<K, V> {
    /// index of the first entry whose key is >= / > `b` (linear scan: tiny maps only)
    fn lower_idx<Q: Ord + ?Sized>(&self, b: Bound<&Q>) -> usize
    where
        K: Borrow<Q>,
    {
        let v = self.v();
        let mut i = 0;
        while i < v.len() {
            let k: &K = unsafe { &(*v[i]).0 };
            let stop = match b {
                Bound::Unbounded => true,
                Bound::Included(q) => k.borrow() >= q,
                Bound::Excluded(q) => k.borrow() > q,
            };
            if stop {
                break;
            }
            i += 1;
        }
        i
    }

    /// index one past the last entry whose key is <= / < `b`
    fn upper_idx<Q: Ord + ?Sized>(&self, b: Bound<&Q>) -> usize
    where
        K: Borrow<Q>,
    {
        let v = self.v();
        let mut i = v.len();
        while i > 0 {
            let k: &K = unsafe { &(*v[i - 1]).0 };
            let stop = match b {
                Bound::Unbounded => true,
                Bound::Included(q) => k.borrow() <= q,
                Bound::Excluded(q) => k.borrow() < q,
            };
            if stop {
                break;
            }
            i -= 1;
        }
        i
    }

    pub fn insert(&self, key: K, value: V) -> Entry<'_, K, V> {
        let v = self.v();
        let pos = self.lower_idx(Bound::Included(&key));
        let replace = pos < v.len() && unsafe { &(*v[pos]).0 } == &key;
        let node: *const (K, V) = Box::leak(Box::new((key, value)));
        if replace {
            v[pos] = node;
        } else {
            v.push(node);
            let mut i = v.len() - 1;
            while i > pos {
                v.swap(i, i - 1);
                i -= 1;
            }
        }
        Entry {
            node: unsafe { &*node },
        }
    }

    pub fn get<Q: Ord + ?Sized>(&self, key: &Q) -> Option<Entry<'_, K, V>>
    where
        K: Borrow<Q>,
    {
        let v = self.v();
        let pos = self.lower_idx(Bound::Included(key));
        if pos < v.len() && unsafe { &(*v[pos]).0 }.borrow() == key {
            Some(Entry {
                node: unsafe { &*v[pos] },
            })
        } else {
            None
        }
    }

    pub fn range<Q, R>(&self, range: R) -> Range<'_, Q, R, K, V>
    where
        K: Borrow<Q>,
        R: RangeBounds<Q>,
        Q: Ord + ?Sized,
    {
        let lo = self.lower_idx(range.start_bound());
        let hi = self.upper_idx(range.end_bound());
        let hi = if hi < lo { lo } else { hi };
        Range {
            map: self,
            lo,
            hi,
            _r: std::marker::PhantomData,
        }
    }
}

pub struct Entry<'a, K, V> {
    node: &'a (K, V),
}

impl<'a, K, V> Entry<'a, K, V> {
    pub fn key(&self) -> &'a K {
        &self.node.0
    }
    pub fn value(&self) -> &'a V {
        &self.node.1
    }
}

impl<K, V> Clone for Entry<'_, K, V> {
    fn clone(&self) -> Self {
        Self { node: self.node }
    }
}

pub struct Iter<'a, K, V> {
    map: &'a SkipMap<K, V>,
    lo: usize,
    hi: usize,
}

unsafe impl<K: Send + Sync, V: Send + Sync> Send for Iter<'_, K, V> {}
unsafe impl<K: Send + Sync, V: Send + Sync> Sync for Iter<'_, K, V> {}

impl<'a, K, V> Iterator for Iter<'a, K, V> {
    type Item = Entry<'a, K, V>;
    fn next(&mut self) -> Option<Self::Item> {
        if self.lo < self.hi {
            let n = self.map.v()[self.lo];
            self.lo += 1;
            Some(Entry {
                node: unsafe { &*n },
            })
        } else {
            None
        }
    }
}

impl<K, V> DoubleEndedIterator for Iter<'_, K, V> {
    fn next_back(&mut self) -> Option<Self::Item> {
        if self.lo < self.hi {
            self.hi -= 1;
            let n = self.map.v()[self.hi];
            Some(Entry {
                node: unsafe { &*n },
            })
        } else {
            None
        }
    }
}

pub struct Range<'a, Q: ?Sized, R, K, V> {
    map: &'a SkipMap<K, V>,
    lo: usize,
    hi: usize,
    _r: std::marker::PhantomData<(fn() -> R, fn(&Q))>,
}

unsafe impl<Q: ?Sized, R, K: Send + Sync, V: Send + Sync> Send for Range<'_, Q, R, K, V> {}
unsafe impl<Q: ?Sized, R, K: Send + Sync, V: Send + Sync> Sync for Range<'_, Q, R, K, V> {}

impl<'a, Q: ?Sized, R, K, V> Iterator for Range<'a, Q, R, K, V> {
    type Item = Entry<'a, K, V>;
    fn next(&mut self) -> Option<Self::Item> {
        if self.lo < self.hi {
            let n = self.map.v()[self.lo];
            self.lo += 1;
            Some(Entry {
                node: unsafe { &*n },
            })
        } else {
            None
        }
    }
}

impl<Q: ?Sized, R, K, V> DoubleEndedIterator for Range<'_, Q, R, K, V> {
    fn next_back(&mut self) -> Option<Self::Item> {
        if self.lo < self.hi {
            self.hi -= 1;
            let n = self.map.v()[self.hi];
            Some(Entry {
                node: unsafe { &*n },
            })
        } else {
            None
        }
    }
}

//! Verification model of `xxhash-rust` 0.8.18 (`xxh3` subset used by lsm-tree).
//!
//! Under Kani, xxh3 is an **uninterpreted function**: a memo table makes equal inputs hash equally;
//! a fresh input gets an arbitrary digest that is *assumed* different from every earlier digest
//! (also in its low 64 and low 32 bits - the truncations lsm-tree stores). That "no collision among
//! the few short inputs of one run" assumption is the one probabilistic fact no solver can decide;
//! every evidence file of a check using this model states it.
//!
//! Natively (model-validation builds) it is FNV-1a widened to 128 bits - any deterministic function
//! will do for the tests that do not pin xxh3 constants.
pub mod xxh3 {
    #[cfg(kani)]
    mod uf {
        pub const MAX_IN: usize = 96;
        pub const MAX_CALLS: usize = 8;

        #[derive(Clone, Copy)]
        struct Memo {
            buf: [u8; MAX_IN],
            len: usize,
            out: u128,
        }

        static mut MEMO: [Memo; MAX_CALLS] = [Memo {
            buf: [0; MAX_IN],
            len: 0,
            out: 0,
        }; MAX_CALLS];
        static mut N: usize = 0;

        pub fn hash(input: &[u8]) -> u128 {
            assert!(input.len() <= MAX_IN, "xxh3 model: input longer than MAX_IN");
            unsafe {
                let n = N;
                let mut i = 0;
                while i < n {
                    let m = &*core::ptr::addr_of!(MEMO[i]);
                    if m.len == input.len() {
                        let mut same = true;
                        let mut j = 0;
                        while j < input.len() {
                            if m.buf[j] != input[j] {
                                same = false;
                            }
                            j += 1;
                        }
                        if same {
                            return m.out;
                        }
                    }
                    i += 1;
                }
                assert!(n < MAX_CALLS, "xxh3 model: more than MAX_CALLS distinct inputs");
                let out: u128 = kani::any();
                let mut i = 0;
                while i < n {
                    let o = (*core::ptr::addr_of!(MEMO[i])).out;
                    kani::assume(out as u32 != o as u32);
                    i += 1;
                }
                let m = &mut *core::ptr::addr_of_mut!(MEMO[n]);
                let mut j = 0;
                while j < input.len() {
                    m.buf[j] = input[j];
                    j += 1;
                }
                m.len = input.len();
                m.out = out;
                N = n + 1;
                out
            }
        }
    }

    #[cfg(kani)]
    fn h128(input: &[u8]) -> u128 {
        uf::hash(input)
    }

    #[cfg(not(kani))]
    fn h128(input: &[u8]) -> u128 {
        let mut h: u128 = 0x6c62272e07bb014262b821756295c58d;
        for b in input {
            h ^= u128::from(*b);
            h = h.wrapping_mul(0x0000000001000000000000000000013B);
        }
        h ^ (h >> 67)
    }

    #[must_use]
    pub fn xxh3_64(input: &[u8]) -> u64 {
        h128(input) as u64
    }

    #[must_use]
    pub fn xxh3_128(input: &[u8]) -> u128 {
        h128(input)
    }

    /// Streaming hasher: buffers the input, digest = hash of the concatenation.
    #[derive(Clone)]
    pub struct Xxh3 {
        buf: Vec<u8>,
    }

    pub type Xxh3Default = Xxh3;

    impl Xxh3 {
        #[must_use]
        pub fn new() -> Self {
            Self {
                buf: Vec::with_capacity(96),
            }
        }

        pub fn reset(&mut self) {
            self.buf.clear();
        }

        pub fn update(&mut self, input: &[u8]) {
            self.buf.extend_from_slice(input);
        }

        #[must_use]
        pub fn digest(&self) -> u64 {
            h128(&self.buf) as u64
        }

        #[must_use]
        pub fn digest128(&self) -> u128 {
            h128(&self.buf)
        }
    }

    impl Default for Xxh3 {
        fn default() -> Self {
            Self::new()
        }
    }

    impl core::hash::Hasher for Xxh3 {
        fn finish(&self) -> u64 {
            self.digest()
        }
        fn write(&mut self, input: &[u8]) {
            self.update(input);
        }
    }

    impl std::io::Write for Xxh3 {
        fn write(&mut self, buf: &[u8]) -> std::io::Result<usize> {
            self.update(buf);
            Ok(buf.len())
        }
        fn flush(&mut self) -> std::io::Result<()> {
            Ok(())
        }
    }
}
